//go:build verif

// C01 — civil<->lunar conversion is an order-preserving bijection that round-trips.
package c01

import (
	"fmt"
	"strings"
	"testing"

	"github.com/6tail/lunar-go/calendar"
	"pgregory.net/rapid"
	"verif/internal/dig"
	"verif/internal/ev"
	"verif/internal/gen"
	"verif/internal/ref"
)

func TestMain(m *testing.M) { ev.Main(m, "C01") }

func reformEra(y int) bool { return (y >= 7 && y <= 24) || (y >= 235 && y <= 241) }

type lunarYMD struct{ Y, M, D int }

func ymdOf(l *calendar.Lunar) lunarYMD { return lunarYMD{l.GetYear(), l.GetMonth(), l.GetDay()} }

func classDay(l lunarYMD, civil ref.DT, dayCount int) ([]string, bool) {
	ls := []string{gen.Era(civil.Y)}
	nt := false
	if l.D == 1 {
		ls, nt = append(ls, "monthFirstDay"), true
	}
	if dayCount > 0 && l.D == dayCount {
		ls, nt = append(ls, "monthLastDay"), true
	}
	if l.M < 0 {
		ls, nt = append(ls, "leapMonth"), true
	}
	if l.Y != civil.Y {
		ls, nt = append(ls, "lunarYear!=civilYear"), true
		if l.Y > civil.Y {
			ls = append(ls, "lunarYearLeads")
		}
	}
	if (l.M == 1 && l.D <= 3) || (l.M == 12 && l.D >= 28) || (l.M == -12) {
		ls, nt = append(ls, "nearNewYear"), true
	}
	if civil.Y == 1582 {
		ls, nt = append(ls, "y1582"), true
	}
	return ls, nt
}

// ------------------------------------------------------------------------------------------
// 1. civil -> lunar -> civil (and successor relation between consecutive civil days)

type dayCase struct {
	T ref.DT // civil date-time; the successor relation is checked between T's day and the next day
}

func dayCountOf(y, m int) int {
	lm := calendar.NewLunarMonthFromYm(y, m)
	if lm == nil {
		return -1
	}
	return lm.GetDayCount()
}

var civilLunarCivil = ev.Register(&ev.P[dayCase]{
	Name: "civil_lunar_civil",
	Rule: "civil date-times enumerated (every day of the sweep years at 00:00:00) or generated (boundary days x boundary clock times); oracle: the lunar date has non-zero month/day within its month's day count, NewLunar(y,m,d,h,mi,s).GetSolar() and Solar.GetLunar().GetSolar() give back the civil date-time, the clock is preserved; and the NEXT civil day maps to the lunar successor (same month day+1, or day 1 of a different month with the previous month exhausted per its own day count, year non-decreasing by at most 1; outside AD 7-24/235-241 the month number must be the canonical successor) — which makes the map injective and order preserving; non-trivial: first/last day of a lunar month, leap month, within 3 days of New Year, 1582, lunar year != civil year",
	Check: func(c dayCase) error {
		t := c.T
		s := gen.Solar(t)
		// the conversion reads the civil year's table; one case in four, that table's own list accessors have just been
		// used (they hand out views of the cached table and must leave it as it was)
		if k := (ref.JDN(t.Y, t.M, t.D) + t.H) % 4; k == 0 {
			ly := calendar.NewLunarYear(t.Y)
			_, _, _, _, _ = ly.GetMonthsInYear(), ly.GetLeapMonth(), ly.GetDayCount(), ly.GetMonth(1), ly.GetMonths()
		}
		l := s.GetLunar()
		a := ymdOf(l)
		if a.M == 0 || a.D <= 0 {
			return fmt.Errorf("%v -> lunar %v (zero/negative field)", t, a)
		}
		dc := dayCountOf(a.Y, a.M)
		if dc < 0 {
			return fmt.Errorf("%v -> lunar %v but that lunar month does not exist in year table %d", t, a, a.Y)
		}
		if a.D > dc {
			return fmt.Errorf("%v -> lunar %v but month has only %d days", t, a, dc)
		}
		if l.GetHour() != t.H || l.GetMinute() != t.Mi || l.GetSecond() != t.S {
			return fmt.Errorf("%v -> lunar clock %d:%d:%d", t, l.GetHour(), l.GetMinute(), l.GetSecond())
		}
		if b := gen.FromSolar(l.GetSolar()); b != t {
			return fmt.Errorf("%v GetLunar().GetSolar() = %v", t, b)
		}
		back := calendar.NewLunar(a.Y, a.M, a.D, t.H, t.Mi, t.S)
		if b := gen.FromSolar(back.GetSolar()); b != t {
			return fmt.Errorf("%v -> lunar %v -> civil %v", t, a, b)
		}
		if ymdOf(back) != a {
			return fmt.Errorf("NewLunar%v reports %v", a, ymdOf(back))
		}
		// successor
		j := ref.JDN(t.Y, t.M, t.D)
		if j+1 > ref.JDNMax {
			return nil
		}
		n := t.AddDays(1)
		b := ymdOf(gen.Solar(n).GetLunar())
		if b.Y == a.Y && b.M == a.M {
			if b.D != a.D+1 {
				return fmt.Errorf("%v is lunar %v but next day %v is lunar %v", t, a, n, b)
			}
			return nil
		}
		if b.D != 1 {
			return fmt.Errorf("%v is lunar %v; next day %v starts a new month at day %d", t, a, n, b.D)
		}
		if a.D != dc {
			return fmt.Errorf("%v is lunar %v (month has %d days) but next day %v is already %v", t, a, dc, n, b)
		}
		if b.Y != a.Y && b.Y != a.Y+1 {
			return fmt.Errorf("lunar year jumps from %v to %v between %v and %v", a, b, t, n)
		}
		if !reformEra(a.Y) && !reformEra(b.Y) {
			ok := false
			switch {
			case b.Y == a.Y+1:
				ok = b.M == 1 && (a.M == 12 || a.M == -12)
			case a.M > 0:
				ok = b.M == -a.M || (b.M == a.M+1 && a.M < 12)
			default:
				ok = b.M == -a.M+1 && -a.M < 12
			}
			if !ok {
				return fmt.Errorf("month order broken: %v is lunar %v, next day %v is lunar %v", t, a, n, b)
			}
		}
		return nil
	},
	Class: func(c dayCase) ([]string, bool) {
		l := gen.Solar(c.T).GetLunar()
		a := ymdOf(l)
		return classDay(a, c.T, dayCountOf(a.Y, a.M))
	},
	Require: []string{"monthFirstDay", "monthLastDay", "leapMonth", "lunarYear!=civilYear", "nearNewYear", "y1582"},
})

// ------------------------------------------------------------------------------------------
// 2. lunar -> civil -> lunar on valid triples built from the year table

type lunarCase struct {
	Y, M, D  int
	H, Mi, S int
}

var lunarCivilLunar = ev.Register(&ev.P[lunarCase]{
	Name: "lunar_civil_lunar",
	Rule: "lunar triples valid by construction (year, one of the year's own months, day within its count) with generated clock times; oracle: NewLunar(...).GetSolar().GetLunar() reports the same year/month/day/time, the civil date is valid and its day number equals the month's first day number + day - 1; non-trivial: leap month, day 1/29/30, month 1 or 12, early years",
	Check: func(c lunarCase) error {
		// the constructor is used for another year's month of the same number, then refused for this year (a month
		// that does not exist), then asked for the case: refused calls leave nothing behind
		func() {
			defer func() { _ = recover() }()
			_ = calendar.NewLunar(c.Y-1-c.D%3, abs(c.M), 1, 0, 0, 0)
		}()
		func() {
			defer func() { _ = recover() }()
			_ = calendar.NewLunar(c.Y, []int{13, -13, 0, -abs(c.M) - 12}[c.D%4], 1, 0, 0, 0)
		}()
		func() {
			defer func() { _ = recover() }()
			_ = calendar.NewLunar(c.Y, c.M, 31+c.D%2, 0, 0, 0)
		}()
		l := calendar.NewLunar(c.Y, c.M, c.D, c.H, c.Mi, c.S)
		s := l.GetSolar()
		g := gen.FromSolar(s)
		if !ref.Valid(g.Y, g.M, g.D, g.H, g.Mi, g.S) {
			return fmt.Errorf("lunar %+v -> invalid civil %v", c, g)
		}
		if g.H != c.H || g.Mi != c.Mi || g.S != c.S {
			return fmt.Errorf("lunar %+v -> civil clock %v", c, g)
		}
		l2 := s.GetLunar()
		if l2.GetYear() != c.Y || l2.GetMonth() != c.M || l2.GetDay() != c.D || l2.GetHour() != c.H || l2.GetMinute() != c.Mi || l2.GetSecond() != c.S {
			return fmt.Errorf("lunar %+v -> civil %v -> lunar %v %d:%d:%d", c, g, ymdOf(l2), l2.GetHour(), l2.GetMinute(), l2.GetSecond())
		}
		lm := calendar.NewLunarMonthFromYm(c.Y, c.M)
		first := int(lm.GetFirstJulianDay() + 0.5)
		if ref.JDN(g.Y, g.M, g.D) != first+c.D-1 {
			return fmt.Errorf("lunar %+v -> civil %v but the month starts on JDN %d", c, g, first)
		}
		return nil
	},
	Class: func(c lunarCase) ([]string, bool) {
		ls := []string{gen.Era(c.Y)}
		nt := false
		if c.M < 0 {
			ls, nt = append(ls, "leapMonth"), true
		}
		if c.D == 1 || c.D >= 29 {
			ls, nt = append(ls, "monthEdge"), true
		}
		if c.M == 1 || c.M == 12 || c.M == 11 {
			ls, nt = append(ls, "yearEdgeMonth"), true
		}
		return ls, nt
	},
	Require: []string{"leapMonth", "monthEdge", "yearEdgeMonth"},
})

// ------------------------------------------------------------------------------------------
// 3. path independence (digest) and stepping

type pathCase struct {
	T ref.DT
	N int
}

var pathIndependence = ev.Register(&ev.P[pathCase]{
	Name: "path_independence_and_next",
	Rule: "generated civil date-time t and step n; oracle: the reflective digest (every zero-argument accessor, recursing one level into returned objects: civil date, eight characters, hour objects, nine stars, Taoist/Buddhist dates, terms) of Solar.GetLunar() equals that of NewLunar(y,m,d,h,mi,s) built from its numbers; Lunar.Next(n) digest-equals Solar.NextDay(n).GetLunar() and its civil date is R-civil(t+n days); Next(n).Next(-n) returns; non-trivial: 23:xx, leap month, lunar year != civil year, a term day, or |n| crosses a lunar year",
	Check: func(c pathCase) error {
		t := c.T
		s := gen.Solar(t)
		l := s.GetLunar()
		direct := calendar.NewLunar(l.GetYear(), l.GetMonth(), l.GetDay(), t.H, t.Mi, t.S)
		d1, d2 := dig.Of(l, 1), dig.Of(direct, 1)
		if df := dig.Diff(d1, d2, 4); df != "" {
			return fmt.Errorf("%v: converted vs constructed lunar object differ: %s", t, df)
		}
		j := ref.JDN(t.Y, t.M, t.D)
		if j+c.N < ref.JDNMin+40 || j+c.N > ref.JDNMax-40 {
			return nil
		}
		want := t.AddDays(c.N)
		ln := l.Next(c.N)
		if g := gen.FromSolar(ln.GetSolar()); g != want {
			return fmt.Errorf("%v Lunar.Next(%d).GetSolar() = %v, R-civil says %v", t, c.N, g, want)
		}
		via := s.NextDay(c.N).GetLunar()
		if df := dig.Diff(dig.Of(ln, 0), dig.Of(via, 0), 4); df != "" {
			return fmt.Errorf("%v: Lunar.Next(%d) vs Solar.NextDay(%d).GetLunar() differ: %s", t, c.N, c.N, df)
		}
		bk := ln.Next(-c.N)
		if ymdOf(bk) != ymdOf(l) || gen.FromSolar(bk.GetSolar()) != t {
			return fmt.Errorf("%v Lunar.Next(%d).Next(%d) = %v", t, c.N, -c.N, ymdOf(bk))
		}
		// the lunar date still is what it was after its civil side was used for stepping (hours within the day, zero
		// days) and after its own zero step: lunar -> civil -> lunar stays the identity on the object already held
		cs := l.GetSolar()
		_, _, _, _ = cs.NextHour(1), cs.NextHour(-1), cs.NextDay(0), l.Next(0).GetSolar().NextHour(2)
		if g := gen.FromSolar(l.GetSolar()); g != t || ymdOf(l.GetSolar().GetLunar()) != ymdOf(l) || l.GetSolar().GetLunar().GetTimeInGanZhi() != l.GetTimeInGanZhi() {
			return fmt.Errorf("%v: after stepping calls on its civil date the held lunar date reports civil %v / lunar %v (hour pillar %s vs %s)", t, g, ymdOf(l.GetSolar().GetLunar()), l.GetSolar().GetLunar().GetTimeInGanZhi(), l.GetTimeInGanZhi())
		}
		// dates obtained FROM the held one (zero step, round trip, there and back) are dates of their own: flipping the
		// convention switch of their eight-character chart is not seen by the held date
		for _, o := range []*calendar.Lunar{l.Next(0), l.GetSolar().GetLunar(), bk, l.Next(0).Next(0)} {
			o.GetEightChar().SetSect(1)
		}
		if l.GetEightChar().GetSect() != 2 {
			return fmt.Errorf("%v: the held lunar date's chart reports convention %d after SetSect(1) on the charts of dates derived from it (Next(0), GetSolar().GetLunar(), Next(n).Next(-n))", t, l.GetEightChar().GetSect())
		}
		if df := dig.Diff(dig.Of(l, 0), d1Flat(d1), 4); df != "" {
			return fmt.Errorf("%v: the held lunar date answers differently after stepping calls: %s", t, df)
		}
		return nil
	},
	Class: func(c pathCase) ([]string, bool) {
		l := gen.Solar(c.T).GetLunar()
		a := ymdOf(l)
		ls, nt := classDay(a, c.T, dayCountOf(a.Y, a.M))
		if c.T.H == 23 {
			ls, nt = append(ls, "hour23"), true
		}
		if l.GetJieQi() != "" {
			ls, nt = append(ls, "termDay"), true
		}
		if c.N > 354 || c.N < -354 {
			ls, nt = append(ls, "crossesLunarYear"), true
		}
		return ls, nt
	},
	Require: []string{"hour23", "leapMonth", "termDay", "lunarYear!=civilYear", "crossesLunarYear"},
})

// 4. lunar day stepping swept (cheap form: numbers only)

type nextCase struct {
	J, N int
}

var lunarNext = ev.Register(&ev.P[nextCase]{
	Name: "lunar_next_equals_civil_next",
	Rule: "every civil day of the sweep years (hot years thinned in quick, incl. the reform years; all years in thorough) x n in {1,-1,2,28,29,30,-29,-30,59}; oracle: Lunar.Next(n) has the civil date R-civil(day+n) and the lunar year/month/day of Solar.NextDay(n).GetLunar(); non-trivial: the step leaves the lunar month; distinct = (day, n)",
	Check: func(c nextCase) error {
		if c.J+c.N < ref.JDNMin || c.J+c.N > ref.JDNMax {
			return nil
		}
		y, m, d := ref.FromJDN(c.J)
		s := calendar.NewSolarFromYmd(y, m, d)
		l := s.GetLunar()
		ln := l.Next(c.N)
		y2, m2, d2 := ref.FromJDN(c.J + c.N)
		if g := ln.GetSolar(); g.GetYear() != y2 || g.GetMonth() != m2 || g.GetDay() != d2 {
			return fmt.Errorf("lunar %v (civil %s) Next(%d) has civil date %s, R-civil says %04d-%02d-%02d", ymdOf(l), s.ToYmd(), c.N, g.ToYmd(), y2, m2, d2)
		}
		if via := ymdOf(calendar.NewSolarFromYmd(y2, m2, d2).GetLunar()); ymdOf(ln) != via {
			return fmt.Errorf("lunar %v (civil %s) Next(%d) = %v, stepping on the civil side gives %v", ymdOf(l), s.ToYmd(), c.N, ymdOf(ln), via)
		}
		return nil
	},
	Class: func(c nextCase) ([]string, bool) {
		y, m, d := ref.FromJDN(c.J)
		l := calendar.NewSolarFromYmd(y, m, d).GetLunar()
		dc := dayCountOf(l.GetYear(), l.GetMonth())
		if t := l.GetDay() + c.N; t < 1 || t > dc {
			return []string{"leavesMonth"}, true
		}
		return nil, false
	},
	Disjoint: true,
	Require:  []string{"leavesMonth"},
})

// ------------------------------------------------------------------------------------------

func genLunar(t *rapid.T) lunarCase {
	y := gen.Year(t, 1, 9998)
	ly := calendar.NewLunarYear(y)
	var ms []*calendar.LunarMonth
	var leap *calendar.LunarMonth
	for e := ly.GetMonthsInYear().Front(); e != nil; e = e.Next() {
		m := e.Value.(*calendar.LunarMonth)
		ms = append(ms, m)
		if m.IsLeap() {
			leap = m
		}
	}
	m := ms[rapid.IntRange(0, len(ms)-1).Draw(t, "monthIdx")]
	k := rapid.IntRange(0, 5).Draw(t, "monthBias")
	if k == 0 && leap != nil {
		m = leap
	} else if k == 1 {
		m = ms[0]
	} else if k == 2 {
		m = ms[len(ms)-1]
	}
	d := rapid.IntRange(1, m.GetDayCount()).Draw(t, "day")
	if rapid.IntRange(0, 2).Draw(t, "dayEdge") == 0 {
		d = rapid.SampledFrom([]int{1, 2, m.GetDayCount() - 1, m.GetDayCount()}).Draw(t, "edgeDay")
	}
	h, mi, s := gen.Time(t)
	// the civil date must stay in 1..9998 (lunar year 9998 ends in civil 9999)
	if y == 9998 && m.GetFirstJulianDay()+float64(d) > float64(ref.JDNMax) {
		m, d = ms[0], 1
	}
	return lunarCase{y, m.GetMonth(), d, h, mi, s}
}

// d1Flat keeps the depth-0 entries of a depth-1 digest of a Lunar (paths "Lunar.X()").
func d1Flat(d map[string]string) map[string]string {
	out := map[string]string{}
	for k, v := range d {
		if strings.Count(k, ".") == 1 {
			out[k] = v
		}
	}
	return out
}

func abs(x int) int {
	if x < 0 {
		return -x
	}
	return x
}

func TestC01(t *testing.T) {
	ev.Assume("lunar month day counts used in the successor relation are the library's own (their correctness is C02/C06's subject)")
	years := gen.HotYears()
	if ev.Thorough() {
		years = nil
		for y := 1; y <= 9998; y++ {
			years = append(years, y)
		}
		civilLunarCivil.Exhaustive("every civil day 0001-01-01..9998-12-31 at 00:00:00 (round trip + successor)")
	}
	for _, y := range years {
		if !ev.Mine(y) {
			continue
		}
		for m := 1; m <= 12; m++ {
			for d := 1; d <= 31; d++ {
				if ref.ValidDate(y, m, d) {
					if civilLunarCivil.Eval(dayCase{ref.DT{Y: y, M: m, D: d}}) != nil && civilLunarCivil.Failed() {
						break
					}
				}
			}
		}
	}
	for _, y := range years {
		if !ev.Mine(y) || (!ev.Thorough() && y > 30 && !(y >= 230 && y <= 245) && y != 1582 && y%7 != 0) {
			continue
		}
		for j := ref.JDN(y, 1, 1); j <= ref.JDN(y, 12, 31); j++ {
			for _, n := range []int{1, -1, 2, 28, 29, 30, -29, -30, 59} {
				if n != 1 && n != 29 && (j+n)%3 != 0 { // 1 and 29 on every day, the other seven sizes on a third of the days each
					continue
				}
				lunarNext.Eval(nextCase{j, n})
			}
		}
	}
	if ev.Thorough() {
		lunarNext.Exhaustive("every civil day 1..9998 x step sizes {1, 29} (and seven more sizes on every third day)")
	}
	// the first and the last civil day of every lunar month of every year (a month start far from its mean position is a
	// single day in ten thousand years)
	for y := 1; y <= 9997; y++ {
		if !ev.Mine(y) {
			continue
		}
		for e := calendar.NewLunarYear(y).GetMonthsInYear().Front(); e != nil; e = e.Next() {
			m := e.Value.(*calendar.LunarMonth)
			j0 := int(m.GetFirstJulianDay() + 0.5)
			for _, j := range []int{j0, j0 + m.GetDayCount() - 1} {
				if j > ref.JDNMin+1 && j < ref.JDNMax-1 {
					yy, mm, dd := ref.FromJDN(j)
					civilLunarCivil.Eval(dayCase{ref.DT{Y: yy, M: mm, D: dd, H: 12}})
				}
			}
		}
	}
	// a dense window of days asked again in scrambled order (same oracle, different predecessor: a memo keyed on too
	// little answers the previous question)
	{
		start := ref.JDN(2019, 1, 1) + ev.Shard*230
		for _, perm := range ev.Shuffled(460, ev.Pick(2, 8), 1) {
			for _, k := range perm {
				yy, mm, dd := ref.FromJDN(start + k)
				civilLunarCivil.Eval(dayCase{ref.DT{Y: yy, M: mm, D: dd, H: []int{0, 12, 23}[k%3]}})
			}
		}
	}
	civilLunarCivil.Rapid(ev.Share(ev.Pick(16000, 400000)), func(t *rapid.T) dayCase { return dayCase{gen.Moment(t)} })
	lunarCivilLunar.Rapid(ev.Share(ev.Pick(16000, 400000)), genLunar)
	pathIndependence.Rapid(ev.Share(ev.Pick(1600, 48000)), func(t *rapid.T) pathCase {
		return pathCase{gen.Moment(t), gen.Step(t, 4000)}
	})
}
