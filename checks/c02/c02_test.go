//go:build verif

// C02 — months start on the new-moon day; leap months follow the no-major-term rule.
package c02

import (
	"bufio"
	"fmt"
	"math"
	"os"
	"path/filepath"
	"sort"
	"strconv"
	"strings"
	"testing"

	"github.com/6tail/lunar-go/ShouXingUtil"
	"github.com/6tail/lunar-go/calendar"
	"pgregory.net/rapid"
	"verif/internal/ev"
	"verif/internal/gen"
	"verif/internal/ref"
)

func TestMain(m *testing.M) { ev.Main(m, "C02") }

// ---- R-astro helpers ----------------------------------------------------------------------

// local converts a dynamical-time JDE into a UTC+8 Julian Day using the independent delta-T.
func local(jde float64) float64 {
	yr := 2000 + (jde-2451545)/365.25
	return jde - ref.DeltaT(yr)/86400 + 8.0/24
}

// civil day number (JDN) containing a UTC+8 Julian Day, and its distance (days) to the nearest UTC+8 midnight
func dayOf(l float64) (int, float64) {
	d := math.Floor(l + 0.5)
	f := l + 0.5 - d
	if f > 0.5 {
		f = 1 - f
	}
	return int(d), f
}

// newMoonNear returns the UTC+8 Julian Day of the R-astro new moon nearest to Julian Day jd.
func newMoonNear(jd float64) float64 {
	k := math.Round((jd - 2451550.09766) / 29.530588861)
	best := local(ref.NewMoonJDE(k))
	for _, kk := range []float64{k - 1, k + 1} {
		if l := local(ref.NewMoonJDE(kk)); math.Abs(l-jd) < math.Abs(best-jd) {
			best = l
		}
	}
	return best
}

// moonMargin: how close (days) to UTC+8 midnight an R-astro new moon must be to be inconclusive.
func moonMargin(y int) float64 {
	if y < 1929 {
		return 20.0 / 1440 // imperial calendar: Beijing local time (14.3 min behind UTC+8) and era-typical errors
	}
	yy := float64(y) + 0.5
	dd := math.Abs(ref.DeltaT(yy) - ShouXingUtil.DtT((yy-2000)*365.2425)*86400)
	return (3.0 + dd/60) / 1440
}

const sunMargin = 25.0 / 1440 // Meeus low-accuracy sun is good to ~0.01 deg = 15 min; 25 min margin

type mon struct {
	Y, M, DC int
	First    int
}

func monOf(m *calendar.LunarMonth) mon {
	return mon{m.GetYear(), m.GetMonth(), m.GetDayCount(), int(m.GetFirstJulianDay() + 0.5)}
}

func inYear(y int) []mon {
	var out []mon
	for e := calendar.NewLunarYear(y).GetMonthsInYear().Front(); e != nil; e = e.Next() {
		out = append(out, monOf(e.Value.(*calendar.LunarMonth)))
	}
	return out
}

// ---- 1. every month 1645..3000 starts on the day of the true new moon ----------------------

type monthCase struct{ Y, I int }

var newMoonDay = ev.Register(&ev.P[monthCase]{
	Name: "month_starts_on_new_moon_day",
	Rule: "every lunar month whose first day lies in 1645..3000 (whole domain, both tiers); oracle: the new moon of the independent Meeus ch.49 series nearest to the month's first noon, converted TD -> UT (Espenak-Meeus delta-T) -> UTC+8, falls on that civil day, unless it lies within margin(y) of UTC+8 midnight (20 min before 1929; 3 min + |delta-T difference of the two models| from 1929) in which case the month is counted as inconclusive and excluded; also Solar.GetLunar() on the month's first civil day reports day 1 of that month and the day before reports the last day of the preceding month; non-trivial: leap month or its neighbour, new moon within 2 h of midnight, override-list year or neighbour; distinct = (year, index)",
	Check: func(c monthCase) error {
		ms := inYear(c.Y)
		if c.I >= len(ms) {
			return nil
		}
		m := ms[c.I]
		if c.I == 0 { // once per year: the reported leap month is the year's own leap entry
			leap := 0
			for _, x := range ms {
				if x.M < 0 {
					leap = -x.M
				}
			}
			if g := calendar.NewLunarYear(c.Y).GetLeapMonth(); g != leap {
				return fmt.Errorf("lunar year %d: GetLeapMonth() = %d but the year's own months have leap month %d", c.Y, g, leap)
			}
		}
		l := newMoonNear(float64(m.First))
		day, dist := dayOf(l)
		cy, _, _ := ref.FromJDN(m.First)
		if dist > moonMargin(cy) && day != m.First {
			y1, m1, d1 := ref.FromJDN(m.First)
			y2, m2, d2 := ref.FromJDN(day)
			fr := l + 0.5 - math.Floor(l+0.5)
			return fmt.Errorf("lunar month %d/%d starts on %04d-%02d-%02d but the independent new moon falls on %04d-%02d-%02d at %02d:%02d UTC+8 (%.0f min from midnight, margin %.1f min)", m.Y, m.M, y1, m1, d1, y2, m2, d2, int(fr*24), int(fr*1440)%60, dist*1440, moonMargin(cy)*1440)
		}
		// forward conversion agrees with the table on both sides of the month start
		y1, m1, d1 := ref.FromJDN(m.First)
		a := calendar.NewSolarFromYmd(y1, m1, d1).GetLunar()
		if a.GetYear() != m.Y || a.GetMonth() != m.M || a.GetDay() != 1 {
			return fmt.Errorf("%04d-%02d-%02d is the first day of lunar %d/%d in the table but converts to %d/%d/%d", y1, m1, d1, m.Y, m.M, a.GetYear(), a.GetMonth(), a.GetDay())
		}
		y0, m0, d0 := ref.FromJDN(m.First - 1)
		b := calendar.NewSolarFromYmd(y0, m0, d0).GetLunar()
		pm := calendar.NewLunarMonthFromYm(b.GetYear(), b.GetMonth())
		if pm == nil || b.GetDay() != pm.GetDayCount() || int(pm.GetFirstJulianDay()+0.5)+pm.GetDayCount() != m.First {
			return fmt.Errorf("%04d-%02d-%02d (the day before lunar %d/%d begins) converts to %d/%d/%d which is not the last day of the preceding month", y0, m0, d0, m.Y, m.M, b.GetYear(), b.GetMonth(), b.GetDay())
		}
		return nil
	},
	Class: func(c monthCase) ([]string, bool) {
		ms := inYear(c.Y)
		if c.I >= len(ms) {
			return nil, false
		}
		m := ms[c.I]
		cy, _, _ := ref.FromJDN(m.First)
		ls := []string{gen.Era(cy)}
		nt := false
		if m.M < 0 || (c.I+1 < len(ms) && ms[c.I+1].M < 0) || (c.I > 0 && ms[c.I-1].M < 0) {
			ls, nt = append(ls, "leapOrNeighbour"), true
		}
		l := newMoonNear(float64(m.First))
		_, dist := dayOf(l)
		if dist <= moonMargin(cy) {
			ls = append(ls, "inconclusiveNearMidnight")
		}
		if dist < 2.0/24 {
			ls, nt = append(ls, "within2hOfMidnight"), true
		}
		for _, o := range append(append([]int{}, calendar.LEAP_11...), calendar.LEAP_12...) {
			if c.Y >= o-1 && c.Y <= o+1 {
				ls, nt = append(ls, "overrideNeighbourhood"), true
				break
			}
		}
		return ls, nt
	},
	Require: []string{"leapOrNeighbour", "within2hOfMidnight", "inconclusiveNearMidnight"},
})

// ---- 2. the no-major-term rule engine, 1929..3000 ------------------------------------------

type suiCase struct{ Y int }

type event struct {
	l     float64
	cands []int
}

func cands(l, margin float64) []int {
	a := int(math.Floor(l - margin + 0.5))
	b := int(math.Floor(l + margin + 0.5))
	if a == b {
		return []int{a}
	}
	return []int{a, b}
}

// libTable: first day -> "year/month" over the three year tables around Y
func libTable(y int) map[int]string {
	lib := map[int]string{}
	for _, yy := range []int{y - 1, y, y + 1} {
		for e := calendar.NewLunarYear(yy).GetMonths().Front(); e != nil; e = e.Next() {
			m := e.Value.(*calendar.LunarMonth)
			lib[int(m.GetFirstJulianDay()+0.5)] = fmt.Sprintf("%d/%d", m.GetYear(), m.GetMonth())
		}
	}
	return lib
}

func noonJD(y, m, d int) float64 { return float64(ref.JDN(y, m, d)) }

var suiInfo = map[int][2]int{} // sui -> (ambiguous events, distinct admissible tables)

var ruleEngine = ev.Register(&ev.P[suiCase]{
	Name: "no_major_term_rule_1929_3000",
	Rule: "every sui (winter-solstice month to winter-solstice month) ending in 1929..3000 (whole domain, both tiers); oracle: an independent rule engine fed by R-astro — new-moon days, the solstice month is month 11, 13 moons between two solstice months => the first month without a major term is the leap month, numbering follows — builds the month table; events within the error margin of UTC+8 midnight (new moons 3 min + delta-T model difference, terms 25 min) may fall on either day and every resolution is admitted; the library's table (first day, year, month number, leap flag) must equal one admissible table; non-trivial: the sui has 13 moons, or contains an in-margin event; distinct = sui",
	Check: func(c suiCase) error {
		Y := c.Y
		g0, g1 := noonJD(Y-1, 12, 21), noonJD(Y, 12, 21)
		mMoon := moonMargin(Y)
		w0 := event{l: local(ref.SunLongitudeCrossing(270, g0))}
		w1 := event{l: local(ref.SunLongitudeCrossing(270, g1))}
		w0.cands, w1.cands = cands(w0.l, sunMargin), cands(w1.l, sunMargin)
		var zq []event
		for i := 1; i <= 11; i++ {
			lon := math.Mod(270+30*float64(i), 360)
			e := event{l: local(ref.SunLongitudeCrossing(lon, g0+30.44*float64(i)))}
			e.cands = cands(e.l, sunMargin)
			zq = append(zq, e)
		}
		k0 := math.Floor((g0 - 45 - 2451550.09766) / 29.530588861)
		var nm []event
		for k := k0; ; k++ {
			e := event{l: local(ref.NewMoonJDE(k))}
			e.cands = cands(e.l, mMoon)
			nm = append(nm, e)
			if e.l > g1+45 {
				break
			}
		}
		var amb []*event
		all := []*event{&w0, &w1}
		for i := range zq {
			all = append(all, &zq[i])
		}
		for i := range nm {
			all = append(all, &nm[i])
		}
		for _, e := range all {
			if len(e.cands) > 1 {
				amb = append(amb, e)
			}
		}
		if len(amb) > 10 {
			return fmt.Errorf("sui %d: %d in-margin events (oracle too weak here)", Y, len(amb))
		}
		lib := libTable(Y)
		tables := map[string]bool{}
		matched := false
		firstDiff := ""
		for c := 0; c < 1<<len(amb); c++ {
			pick := map[*event]int{}
			for i, e := range amb {
				pick[e] = e.cands[(c>>i)&1]
			}
			day := func(e *event) int {
				if v, ok := pick[e]; ok {
					return v
				}
				return e.cands[0]
			}
			var starts []int
			for i := range nm {
				starts = append(starts, day(&nm[i]))
			}
			sort.Ints(starts)
			idx := func(d int) int {
				r := -1
				for i, s := range starts {
					if s <= d {
						r = i
					}
				}
				return r
			}
			i0, i1 := idx(day(&w0)), idx(day(&w1))
			leapAt := -1
			if i1-i0 == 13 {
				for i := i0 + 1; i < i1; i++ {
					has := false
					for z := range zq {
						if d := day(&zq[z]); d >= starts[i] && d < starts[i+1] {
							has = true
						}
					}
					if !has {
						leapAt = i
						break
					}
				}
			}
			num, yr := 11, Y-1
			var sb strings.Builder
			good := true
			for i := i0; i < i1; i++ {
				label := ""
				if i == leapAt {
					label = fmt.Sprintf("%d/%d", yr, -num)
				} else {
					if i > i0 {
						num++
						if num > 12 {
							num, yr = 1, yr+1
						}
					}
					label = fmt.Sprintf("%d/%d", yr, num)
				}
				fmt.Fprintf(&sb, "%d=%s;", starts[i], label)
				if lib[starts[i]] != label && good {
					good = false
					y1, m1, d1 := ref.FromJDN(starts[i])
					if firstDiff == "" {
						firstDiff = fmt.Sprintf("the month starting %04d-%02d-%02d should be %s, library has %q", y1, m1, d1, label, lib[starts[i]])
					}
				}
			}
			tables[sb.String()] = true
			if good {
				matched = true
			}
		}
		suiInfo[Y] = [2]int{len(amb), len(tables)}
		if !matched {
			return fmt.Errorf("sui ending %d: no admissible rule-engine table (of %d, %d in-margin events) equals the library's: e.g. %s", Y, len(tables), len(amb), firstDiff)
		}
		return nil
	},
	Class: func(c suiCase) ([]string, bool) {
		info := suiInfo[c.Y]
		ls := []string{gen.Era(c.Y)}
		nt := false
		if info[0] > 0 {
			ls, nt = append(ls, "hasInMarginEvent"), true
		}
		if info[1] > 1 {
			ls = append(ls, "severalAdmissibleTables")
		}
		if lp := calendar.NewLunarYear(c.Y).GetLeapMonth(); lp != 0 || calendar.NewLunarYear(c.Y-1).GetLeapMonth() >= 11 {
			ls, nt = append(ls, "leapSui"), true
		}
		return ls, nt
	},
	Disjoint: true,
	Require:  []string{"leapSui", "hasInMarginEvent"},
})

// ---- 3. ICU 72 golden table 1900..2100 -----------------------------------------------------

type icuCase struct {
	Date string // civil date of an ICU month start
	Y, M int    // ICU's lunar year and month (negative = leap)
}

func loadICU() ([]icuCase, error) {
	root := os.Getenv("VERIF_ROOT")
	if root == "" {
		root = "../.."
	}
	f, err := os.Open(filepath.Join(root, "data", "icu72_chinese_month_starts_1900_2100.txt"))
	if err != nil {
		return nil, err
	}
	defer f.Close()
	var out []icuCase
	sc := bufio.NewScanner(f)
	for sc.Scan() {
		p := strings.Fields(sc.Text())
		if len(p) != 3 {
			continue
		}
		y, _ := strconv.Atoi(p[1])
		m, _ := strconv.Atoi(p[2])
		out = append(out, icuCase{p[0], y, m})
	}
	return out, nil
}

const icuMargin = 20.0 / 1440

// excused: does R-astro place a deciding event of the month starting near jdn within 20 min of UTC+8 midnight?
func moonNearMidnight(jdn int) bool {
	for _, d := range []float64{0, 29.53} {
		if _, dist := dayOf(newMoonNear(float64(jdn) + d)); dist <= icuMargin {
			return true
		}
	}
	return false
}

func termNearMidnight(y int) bool {
	for _, yy := range []int{y - 1, y} {
		g0 := noonJD(yy, 12, 21)
		for i := 0; i <= 12; i++ {
			lon := math.Mod(270+30*float64(i), 360)
			if _, dist := dayOf(local(ref.SunLongitudeCrossing(lon, g0+30.44*float64(i)))); dist <= icuMargin {
				return true
			}
		}
	}
	return false
}

var icu = ev.Register(&ev.P[icuCase]{
	Name: "icu_month_table_1900_2100",
	Rule: "every month start of ICU 72's Chinese calendar 1900..2100 (committed golden file, 2 487 months); oracle: the library converts that civil day to day 1 of the same lunar year and month (leap flag included); a disagreement is excused — counted, not reported — only if R-astro places a deciding event within 20 min of UTC+8 midnight (this or the next new moon for a shifted month start; a major term of the surrounding sui for a different leap placement), since ICU's own astronomy is only good to ~15 min and uses Beijing local time before 1929; non-trivial: leap month, or ICU and the library disagree; distinct = date",
	Check: func(c icuCase) error {
		y, _ := strconv.Atoi(c.Date[0:4])
		m, _ := strconv.Atoi(c.Date[5:7])
		d, _ := strconv.Atoi(c.Date[8:10])
		l := calendar.NewSolarFromYmd(y, m, d).GetLunar()
		if l.GetYear() == c.Y && l.GetMonth() == c.M && l.GetDay() == 1 {
			return nil
		}
		j := ref.JDN(y, m, d)
		if l.GetDay() != 1 { // month start shifted
			if moonNearMidnight(j) || moonNearMidnight(j-1) || moonNearMidnight(j+1) {
				return nil
			}
			return fmt.Errorf("%s is day 1 of %d/%d in ICU 72 but lunar %d/%d/%d in the library, and the independent new moon is not within 20 min of midnight", c.Date, c.Y, c.M, l.GetYear(), l.GetMonth(), l.GetDay())
		}
		if termNearMidnight(c.Y) || termNearMidnight(c.Y+1) || moonNearMidnight(j) {
			return nil
		}
		return fmt.Errorf("%s starts month %d/%d in ICU 72 but %d/%d in the library, and no major term of the sui is within 20 min of midnight", c.Date, c.Y, c.M, l.GetYear(), l.GetMonth())
	},
	Class: func(c icuCase) ([]string, bool) {
		y, _ := strconv.Atoi(c.Date[0:4])
		m, _ := strconv.Atoi(c.Date[5:7])
		d, _ := strconv.Atoi(c.Date[8:10])
		l := calendar.NewSolarFromYmd(y, m, d).GetLunar()
		var ls []string
		nt := false
		if c.M < 0 {
			ls, nt = append(ls, "leapMonth"), true
		}
		if !(l.GetYear() == c.Y && l.GetMonth() == c.M && l.GetDay() == 1) {
			ls, nt = append(ls, "icuDisagreesExcused"), true
		}
		return ls, nt
	},
	Disjoint: true,
	Require:  []string{"leapMonth"},
})

func TestC02(t *testing.T) {
	ev.Assume("R-astro: Meeus ch.49 new-moon series (25 periodic + 14 planetary terms), ch.25 low-accuracy sun, Espenak-Meeus 2006 delta-T — independent of ShouXingUtil; events within the stated margins of UTC+8 midnight are inconclusive and excluded")
	ev.Assume("ICU 72 golden table (data/, generated once by tools/icu_gen.py) as a second implementation, not ground truth")
	// 1. months 1645..3000
	for y := 1644; y <= 3000; y++ {
		if !ev.Mine(y) {
			continue
		}
		for i, m := range inYear(y) {
			cy, _, _ := ref.FromJDN(m.First)
			if cy >= 1645 && cy <= 3000 {
				newMoonDay.Eval(monthCase{y, i})
			}
		}
	}
	newMoonDay.Exhaustive("every lunar month whose first day lies in 1645-01-01..3000-12-31")
	// 2. sui 1929..3000
	for y := 1929; y <= 3000; y++ {
		if ev.Mine(y) {
			ruleEngine.Eval(suiCase{y})
		}
	}
	ruleEngine.Exhaustive("every sui ending 1929..3000")
	multi, amb := 0, 0
	for _, v := range suiInfo {
		if v[0] > 0 {
			amb++
		}
		if v[1] > 1 {
			multi++
		}
	}
	ev.Note("shard %d: %d sui, %d with an in-margin event, %d admitting more than one distinct table", ev.Shard, len(suiInfo), amb, multi)
	// 3. ICU
	rows, err := loadICU()
	if err != nil || len(rows) < 2400 {
		ev.Infra("cannot read the ICU golden table: %v (%d rows)", err, len(rows))
	}
	for i, r := range rows {
		if ev.Mine(i) {
			icu.Eval(r)
		}
	}
	icu.Exhaustive("every ICU 72 month start 1900-01-01..2100-12-31")
	// rapid: generated (year, month) also exercises the conversion at month starts outside the astronomical window
	newMoonDay.Rapid(ev.Share(ev.Pick(1600, 16000)), func(t *rapid.T) monthCase {
		y := rapid.IntRange(1645, 2999).Draw(t, "y")
		return monthCase{y, rapid.IntRange(0, 12).Draw(t, "i")}
	})
}
