//go:build verif

// C03 — solar terms are the instants the sun reaches multiples of 15 degrees, in order; look-ups.
package c03

import (
	"fmt"
	"math"
	"strings"
	"testing"

	"github.com/6tail/lunar-go/ShouXingUtil"
	"github.com/6tail/lunar-go/calendar"
	"pgregory.net/rapid"
	"verif/internal/ev"
	"verif/internal/gen"
	"verif/internal/ref"
)

func TestMain(m *testing.M) { ev.Main(m, "C03") }

// canonical Chinese names of the 31 entries (DA_XUE of the previous year ... JING_ZHE of the next)
var canon = []string{"大雪", "冬至", "小寒", "大寒", "立春", "雨水", "惊蛰", "春分", "清明", "谷雨", "立夏", "小满", "芒种", "夏至", "小暑", "大暑", "立秋", "处暑", "白露", "秋分", "寒露", "霜降", "立冬", "小雪", "大雪", "冬至", "小寒", "大寒", "立春", "雨水", "惊蛰"}

type entry struct {
	Key  string
	Name string
	T    ref.DT
	JD   float64
}

// table reads the 31 entries attached to lunar object l, in list order.
func table(l *calendar.Lunar) ([]entry, error) {
	tb := l.GetJieQiTable()
	var out []entry
	for e := l.GetJieQiList().Front(); e != nil; e = e.Next() {
		k, ok := e.Value.(string)
		if !ok {
			return nil, fmt.Errorf("term list element is not a string")
		}
		s := tb[k]
		if s == nil {
			return nil, fmt.Errorf("term %q is listed but missing from the table", k)
		}
		out = append(out, entry{Key: k, T: gen.FromSolar(s)})
	}
	if len(out) != 31 || len(tb) != 31 {
		return nil, fmt.Errorf("term table has %d listed / %d mapped entries, want 31", len(out), len(tb))
	}
	for i := range out {
		out[i].Name = canon[i]
	}
	return out, nil
}

func fold(x float64) float64 { // to (-pi, pi]
	x = math.Mod(x, 2*math.Pi)
	if x > math.Pi {
		x -= 2 * math.Pi
	}
	if x <= -math.Pi {
		x += 2 * math.Pi
	}
	return x
}

type yearCase struct{ Y int }

var structure = ev.Register(&ev.P[yearCase]{
	Name: "table_structure_and_adjacency",
	Rule: "every year's table 1..9998 (both tiers); oracle: 31 entries keyed in the canonical order DA_XUE..JING_ZHE, strictly increasing, consecutive gaps within [14.6, 15.8] days, each Solar entry is the float Julian Day of LunarYear.GetJieQiJulianDays rounded to the second, and entries 24..30 equal entries 0..6 of the next year's table to the second; non-trivial: every year (each table has 30 gaps and 7 shared entries); distinct = year",
	Check: func(c yearCase) error {
		y := c.Y
		l := calendar.NewSolarFromYmd(y, 6, 1).GetLunar()
		tb, err := table(l)
		if err != nil {
			return fmt.Errorf("year %d: %v", y, err)
		}
		jds := calendar.NewLunarYear(y).GetJieQiJulianDays()
		if len(jds) != 31 {
			return fmt.Errorf("year %d: GetJieQiJulianDays has %d entries", y, len(jds))
		}
		for i, e := range tb {
			if e.Key != calendar.JIE_QI_IN_USE[i] {
				return fmt.Errorf("year %d: entry %d keyed %q, want %q", y, i, e.Key, calendar.JIE_QI_IN_USE[i])
			}
			want := float64(ref.JDN(e.T.Y, e.T.M, e.T.D)) - 0.5 + float64(e.T.H*3600+e.T.Mi*60+e.T.S)/86400
			if d := math.Abs(want-jds[i]) * 86400; d > 0.5+1e-3 {
				return fmt.Errorf("year %d entry %d (%s): table says %v but the Julian Day list says %.6f (%.3f s apart)", y, i, e.Name, e.T, jds[i], d)
			}
			if i > 0 {
				gap := float64(e.T.Sec()-tb[i-1].T.Sec()) / 86400
				if gap < 14.6 || gap > 15.8 {
					return fmt.Errorf("year %d: %s -> %s are %.3f days apart (%v, %v)", y, tb[i-1].Name, e.Name, gap, tb[i-1].T, e.T)
				}
			}
		}
		// the winter solstice anchors the table on the civil year: entry 1 is in December y-1, entry 25 in December y
		if tb[1].T.Y != y-1 || tb[1].T.M != 12 || tb[25].T.Y != y || tb[25].T.M != 12 || tb[4].T.Y != y {
			return fmt.Errorf("year %d: table is not anchored on the civil year (solstices %v, %v; Lichun %v)", y, tb[1].T, tb[25].T, tb[4].T)
		}
		if y < 9998 {
			nx, err := table(calendar.NewSolarFromYmd(y+1, 6, 1).GetLunar())
			if err != nil {
				return fmt.Errorf("year %d: %v", y+1, err)
			}
			for i := 0; i < 7; i++ {
				if tb[24+i].T != nx[i].T {
					return fmt.Errorf("%s is %v in the table of %d but %v in the table of %d", tb[24+i].Name, tb[24+i].T, y, nx[i].T, y+1)
				}
			}
		}
		return nil
	},
	Class:    func(c yearCase) ([]string, bool) { return []string{gen.Era(c.Y)}, true },
	Disjoint: true,
})

type termCase struct{ Y, I int }

var root = ev.Register(&ev.P[termCase]{
	Name: "instant_is_root_of_ephemeris",
	Rule: "every (year, entry); oracle (verif hook VerifSaLon): converting the reported UTC+8 Julian Day back to dynamical time (−8 h, +delta-T of the library), the library's apparent solar longitude minus (255°+15°·entry) changes sign within ±1 s of the instant; non-trivial: all (a one-second root test has no trivial case); distinct = (year, entry)",
	Check: func(c termCase) error {
		jds := calendar.NewLunarYear(c.Y).GetJieQiJulianDays()
		d := jds[c.I] - calendar.J2000 - ShouXingUtil.ONE_THIRD
		d += ShouXingUtil.DtT(d)
		w := float64(255+15*c.I) * math.Pi / 180
		const sec = 1.0 / 86400 / 36525
		t := d / 36525
		f0 := fold(ShouXingUtil.VerifSaLon(t-sec, -1) - w)
		f1 := fold(ShouXingUtil.VerifSaLon(t+sec, -1) - w)
		if !(f0 <= 0 && f1 >= 0) || math.Abs(f0) > 1e-4 || math.Abs(f1) > 1e-4 {
			return fmt.Errorf("year %d entry %d (%s) JD %.6f: apparent longitude − target is %.3e rad one second before and %.3e rad one second after (no root within ±1 s; 1 s = 2.0e-7 rad)", c.Y, c.I, canon[c.I], jds[c.I], f0, f1)
		}
		return nil
	},
	Class:    func(c termCase) ([]string, bool) { return []string{gen.Era(c.Y)}, true },
	Disjoint: true,
})

var independent = ev.Register(&ev.P[termCase]{
	Name: "instant_vs_independent_sun",
	Rule: "every (year 1..3000, entry); oracle: Meeus ch.25 low-accuracy apparent solar longitude (own delta-T, Espenak-Meeus) at the reported instant is within 0.0171° (= 25 min of solar motion) of the term's multiple of 15°; catches a consistent corruption of ephemeris and inverse, a wrong time-zone shift, a table off by one term; distinct = (year, entry)",
	Check: func(c termCase) error {
		jds := calendar.NewLunarYear(c.Y).GetJieQiJulianDays()
		jdUTC := jds[c.I] - 8.0/24
		yy := float64(c.Y) + (float64(c.I)-2)/24
		jde := jdUTC + ref.DeltaT(yy)/86400
		lam := ref.SunApparentLongitude(jde)
		target := math.Mod(float64(255+15*c.I), 360)
		d := math.Mod(lam-target+540, 360) - 180
		if math.Abs(d) > 0.0171 {
			return fmt.Errorf("year %d entry %d (%s) JD(UTC+8) %.5f: independent solar longitude %.4f° vs target %.0f° (off by %.1f min)", c.Y, c.I, canon[c.I], jds[c.I], lam, target, d/360*365.2422*1440)
		}
		return nil
	},
	Class:    func(c termCase) ([]string, bool) { return []string{gen.Era(c.Y)}, true },
	Disjoint: true,
})

// tolerance (seconds) for |library delta-T − Espenak-Meeus delta-T|: measured models (through 2019)
// agree to a few seconds; later years are extrapolations whose parabolas legitimately diverge.
func dtTol(y int) float64 {
	switch {
	case y < 2020:
		return 10
	case y < 2150:
		return 60
	case y < 2500:
		return 70
	default:
		return 210
	}
}

type dtCase struct {
	Y    int
	Half bool
}

var deltaT = ev.Register(&ev.P[dtCase]{
	Name: "delta_t_vs_independent",
	Rule: "every half year 1..3000; oracle: the library's delta-T (exported DtT), which converts the dynamical-time root into the reported UTC+8 instant, agrees with the Espenak-Meeus 2006 polynomials within 10 s through 2019 (observed max 4.5 s) and within the extrapolation envelope 60/70/210 s up to 2150/2500/3000; together with the 1 s root check this pins reported instants to ~10 s independently of the library's own delta-T table; distinct = (year, half)",
	Check: func(c dtCase) error {
		yy := float64(c.Y)
		if c.Half {
			yy += 0.5
		}
		lib := ShouXingUtil.DtT((yy-2000)*365.2425) * 86400
		em := ref.DeltaT(yy)
		if math.Abs(lib-em) > dtTol(c.Y) {
			return fmt.Errorf("delta-T at %.1f: library %.1f s, Espenak-Meeus %.1f s (tolerance %.0f s)", yy, lib, em, dtTol(c.Y))
		}
		return nil
	},
	Class:    func(c dtCase) ([]string, bool) { return []string{gen.Era(c.Y)}, true },
	Disjoint: true,
})

// ------------------------------------------------------------------------------------------
// look-ups

type lookCase struct{ T ref.DT }

func jqOK(what string, got *calendar.JieQi, want *entry) error {
	if want == nil {
		if got != nil {
			return fmt.Errorf("%s = %s@%s, model says none", what, got.GetName(), got.GetSolar().ToYmdHms())
		}
		return nil
	}
	if got == nil {
		return fmt.Errorf("%s = nil, model says %s@%v", what, want.Name, want.T)
	}
	if got.GetName() != want.Name || gen.FromSolar(got.GetSolar()) != want.T {
		return fmt.Errorf("%s = %s@%s, model says %s@%v", what, got.GetName(), got.GetSolar().ToYmdHms(), want.Name, want.T)
	}
	return nil
}

func isJieIdx(i int) bool { return i%2 == 0 }

var lookups = ev.Register(&ev.P[lookCase]{
	Name: "prev_next_current_lookups",
	Rule: "query moments: each term instant and ±1 s, the term day's 00:00:00 and 23:59:59, neighbouring days' noon (swept per year) and generated moments; oracle: a 20-line model over the object's own 31-entry table — prev = latest entry <= q, next = earliest entry > q at second resolution (day resolution for the whole-day variants), Jie/Qi variants filter by parity of the canonical index, GetJieQi/GetJie/GetQi/GetCurrent* name the entry whose civil day equals the query day (else empty/nil), names are the Chinese names, IsJie/IsQi by parity; non-trivial: q within 1 s of an instant, on a term day, or answered by one of the 7 entries shared with a neighbouring table",
	Check: func(c lookCase) error {
		t := c.T
		l := gen.Solar(t).GetLunar()
		tb, err := table(l)
		if err != nil {
			return fmt.Errorf("%v: %v", t, err)
		}
		q := t.Sec()
		qd := int64(ref.JDN(t.Y, t.M, t.D))
		pick := func(forward, whole bool, filter func(int) bool) *entry {
			var best *entry
			for i := range tb {
				if !filter(i) {
					continue
				}
				e := &tb[i]
				var k, ref0 int64
				if whole {
					k, ref0 = int64(ref.JDN(e.T.Y, e.T.M, e.T.D)), qd
				} else {
					k, ref0 = e.T.Sec(), q
				}
				if forward {
					if k > ref0 && best == nil {
						best = e
					}
				} else if k <= ref0 {
					best = e
				}
			}
			return best
		}
		all := func(int) bool { return true }
		jie := isJieIdx
		qi := func(i int) bool { return !isJieIdx(i) }
		checks := []error{
			jqOK("GetPrevJieQi", l.GetPrevJieQi(), pick(false, false, all)),
			jqOK("GetNextJieQi", l.GetNextJieQi(), pick(true, false, all)),
			jqOK("GetPrevJie", l.GetPrevJie(), pick(false, false, jie)),
			jqOK("GetNextJie", l.GetNextJie(), pick(true, false, jie)),
			jqOK("GetPrevQi", l.GetPrevQi(), pick(false, false, qi)),
			jqOK("GetNextQi", l.GetNextQi(), pick(true, false, qi)),
			jqOK("GetPrevJieQiByWholeDay(true)", l.GetPrevJieQiByWholeDay(true), pick(false, true, all)),
			jqOK("GetNextJieQiByWholeDay(true)", l.GetNextJieQiByWholeDay(true), pick(true, true, all)),
			jqOK("GetPrevJieByWholeDay(true)", l.GetPrevJieByWholeDay(true), pick(false, true, jie)),
			jqOK("GetNextJieByWholeDay(true)", l.GetNextJieByWholeDay(true), pick(true, true, jie)),
			jqOK("GetPrevQiByWholeDay(true)", l.GetPrevQiByWholeDay(true), pick(false, true, qi)),
			jqOK("GetNextQiByWholeDay(true)", l.GetNextQiByWholeDay(true), pick(true, true, qi)),
			jqOK("GetPrevJieQiByWholeDay(false)", l.GetPrevJieQiByWholeDay(false), pick(false, false, all)),
			jqOK("GetNextJieByWholeDay(false)", l.GetNextJieByWholeDay(false), pick(true, false, jie)),
		}
		for _, e := range checks {
			if e != nil {
				return fmt.Errorf("%v: %v", t, e)
			}
		}
		// IsJie / IsQi of what was returned
		for _, j := range []*calendar.JieQi{l.GetPrevJieQi(), l.GetNextJieQi(), l.GetPrevJie(), l.GetNextQi()} {
			idx := -1
			for i, n := range canon {
				if n == j.GetName() {
					idx = i
					break
				}
			}
			if idx < 0 || j.IsJie() != isJieIdx(idx) || j.IsQi() == isJieIdx(idx) {
				return fmt.Errorf("%v: term %q IsJie=%v IsQi=%v", t, j.GetName(), j.IsJie(), j.IsQi())
			}
		}
		// the day's own term
		wantAll, wantJie, wantQi := "", "", ""
		for i, e := range tb {
			if int64(ref.JDN(e.T.Y, e.T.M, e.T.D)) == qd {
				wantAll = e.Name
				if isJieIdx(i) {
					wantJie = e.Name
				} else {
					wantQi = e.Name
				}
			}
		}
		if l.GetJieQi() != wantAll || l.GetJie() != wantJie || l.GetQi() != wantQi {
			return fmt.Errorf("%v: GetJieQi/GetJie/GetQi = %q/%q/%q, model says %q/%q/%q", t, l.GetJieQi(), l.GetJie(), l.GetQi(), wantAll, wantJie, wantQi)
		}
		cur := func(what string, j *calendar.JieQi, want string, jieWant bool) error {
			if want == "" {
				if j != nil {
					return fmt.Errorf("%s = %s, model says nil", what, j.GetName())
				}
				return nil
			}
			if j == nil || j.GetName() != want || j.IsJie() != jieWant || j.IsQi() == jieWant {
				return fmt.Errorf("%s wrong, model says %s (jie=%v)", what, want, jieWant)
			}
			// the term named for a day falls on that civil day: whatever moment the object carries (the query moment
			// today; the term instant would do as well), it lies on the query's civil day
			if js := j.GetSolar(); js == nil || js.GetYear() != t.Y || js.GetMonth() != t.M || js.GetDay() != t.D {
				return fmt.Errorf("%s = %s carries the moment %v, which is not on the query day", what, want, js)
			}
			return nil
		}
		// the same moment as a lunar date built from its lunar numbers answers the look-ups alike
		if (t.D+t.H)%3 == 0 || l.GetYear() != t.Y {
			l2 := calendar.NewLunar(l.GetYear(), l.GetMonth(), l.GetDay(), t.H, t.Mi, t.S)
			show := func(x *calendar.Lunar) string {
				r := func(j *calendar.JieQi) string {
					if j == nil {
						return "nil"
					}
					return j.GetName() + "@" + j.GetSolar().ToYmdHms()
				}
				return strings.Join([]string{r(x.GetPrevJieQi()), r(x.GetNextJieQi()), r(x.GetPrevJie()), r(x.GetNextJie()), r(x.GetPrevQi()), r(x.GetNextQi()), r(x.GetPrevJieQiByWholeDay(true)), x.GetJieQi(), x.GetJieQiTable()["DA_XUE"].ToYmdHms(), x.GetJieQiTable()["冬至"].ToYmdHms()}, " ")
			}
			if a, b := show(l), show(l2); a != b {
				return fmt.Errorf("%v: the lunar date built by NewLunar(%d,%d,%d,…) answers %s, the one converted from the civil date %s", t, l.GetYear(), l.GetMonth(), l.GetDay(), b, a)
			}
		}
		for _, e := range []error{cur("GetCurrentJieQi", l.GetCurrentJieQi(), wantAll, wantJie != ""), cur("GetCurrentJie", l.GetCurrentJie(), wantJie, true), cur("GetCurrentQi", l.GetCurrentQi(), wantQi, false)} {
			if e != nil {
				return fmt.Errorf("%v: %v", t, e)
			}
		}
		return nil
	},
	Class: func(c lookCase) ([]string, bool) {
		t := c.T
		ts := gen.Terms(t.Y)
		ls := []string{gen.Era(t.Y)}
		nt := false
		q := t.Sec()
		for i, x := range ts {
			if d := x.Sec() - q; d >= -1 && d <= 1 {
				ls, nt = append(ls, "within1s"), true
				if d == 0 {
					ls = append(ls, "atInstant")
				}
			}
			if x.Y == t.Y && x.M == t.M && x.D == t.D {
				ls, nt = append(ls, "onTermDay"), true
			}
			if (i < 7 || i >= 24) && x.Sec()-q > -16*86400 && x.Sec()-q < 16*86400 {
				ls, nt = append(ls, "sharedEntryNear"), true
			}
		}
		return ls, nt
	},
	Require: []string{"within1s", "atInstant", "onTermDay", "sharedEntryNear"},
})

func TestC03(t *testing.T) {
	ev.Assume("hook VerifSaLon returns the library's own apparent solar longitude (root check proves instants are roots of the library's ephemeris, not that the ephemeris is right)")
	ev.Assume("Meeus ch.25 low-accuracy sun + Espenak-Meeus delta-T as independent astronomy, trusted to 25 min for years 1..3000")
	years := gen.HotYears()
	if ev.Thorough() {
		years = nil
		for y := 1; y <= 9998; y++ {
			years = append(years, y)
		}
		lookups.Exhaustive("every term instant of every year with offsets {0,+-1 s, day start, day end, +-1 day noon}")
	}
	deltaT.Exhaustive("every half year 1..3000")
	for y := 1; y <= 3000; y++ {
		if ev.Mine(y) {
			deltaT.Eval(dtCase{y, false})
			deltaT.Eval(dtCase{y, true})
		}
	}
	// structure, root and independent-sun checks are cheap: whole domain in both tiers
	structure.Exhaustive("every year 1..9998")
	root.Exhaustive("every (year 1..9998, entry 0..30)")
	independent.Exhaustive("every (year 1..3000, entry 0..30)")
	for y := 1; y <= 9998; y++ {
		if !ev.Mine(y) {
			continue
		}
		structure.Eval(yearCase{y})
		for i := 0; i < 31; i++ {
			root.Eval(termCase{y, i})
			if y <= 3000 {
				independent.Eval(termCase{y, i})
			}
		}
		// every term of every year whose instant lies within a minute of midnight (a handful per millennium): this is
		// where "at or before", "strictly after" and "falls on that civil day" meet the day boundary, so the look-ups
		// are asked on the eve, the day and the day after, at the day's ends and around the instant
		for _, x := range gen.Terms(y) {
			if tod := x.H*3600 + x.Mi*60 + x.S; x.Y == y && (tod <= 60 || tod >= 86340) {
				for _, dd := range []int{-1, 0, 1} {
					b := x.AddDays(dd)
					for _, q := range []ref.DT{{Y: b.Y, M: b.M, D: b.D}, {Y: b.Y, M: b.M, D: b.D, H: 12}, {Y: b.Y, M: b.M, D: b.D, H: 23, Mi: 59, S: 59}, {Y: b.Y, M: b.M, D: b.D, S: 1}} {
						if q.Y == y {
							lookups.Eval(lookCase{q})
						}
					}
				}
				for _, o := range []int64{-2, -1, 0, 1, 2} {
					if q := ref.FromSec(x.Sec() + o); q.Y == y {
						lookups.Eval(lookCase{q})
					}
				}
			}
		}
	}
	for _, y := range years {
		if !ev.Mine(y) {
			continue
		}
		if !ev.Thorough() && y%3 != 0 && y != 1582 {
			continue
		}
		for _, x := range gen.Terms(y) {
			cands := []ref.DT{x, ref.FromSec(x.Sec() - 1), ref.FromSec(x.Sec() + 1),
				{Y: x.Y, M: x.M, D: x.D}, {Y: x.Y, M: x.M, D: x.D, H: 23, Mi: 59, S: 59}}
			a, b := x.AddDays(-1), x.AddDays(1)
			a.H, a.Mi, a.S, b.H, b.Mi, b.S = 12, 0, 0, 12, 0, 0
			cands = append(cands, a, b)
			for _, q := range cands {
				if q.Y == y { // each query is made from its own civil year
					lookups.Eval(lookCase{q})
				}
			}
		}
	}
	// days whose lunar year differs from the civil year in either direction
	if ev.Shard == 0 {
		for _, d := range []ref.DT{{Y: 15, M: 12, D: 30}, {Y: 15, M: 12, D: 31}, {Y: 18, M: 12, D: 27}, {Y: 18, M: 12, D: 31}, {Y: 16, M: 1, D: 1}, {Y: 2024, M: 1, D: 15}, {Y: 2024, M: 2, D: 9}, {Y: 1582, M: 1, D: 10}} {
			for _, h := range []int{0, 12, 23} {
				d.H = h
				lookups.Eval(lookCase{d})
			}
		}
	}
	lookups.Rapid(ev.Share(ev.Pick(12000, 300000)), func(t *rapid.T) lookCase { return lookCase{gen.Moment(t)} })
}
