//go:build verif

// C04 — civil date arithmetic is exact: Julian Day inverse, additive steps, 1582 gap.
// Oracle: R-civil (integer JDN arithmetic written from the textbook formulas, internal/ref).
package c04

import (
	"fmt"
	"math"
	"sort"
	"strings"
	"testing"

	"github.com/6tail/lunar-go/SolarUtil"
	"github.com/6tail/lunar-go/calendar"
	"pgregory.net/rapid"
	"verif/internal/dig"
	"verif/internal/ev"
	"verif/internal/gen"
	"verif/internal/ref"
)

func TestMain(m *testing.M) { ev.Main(m, "C04") }

func touchesSeam(d ref.DT) bool { return d.Y == 1582 && (d.M == 10 || d.M == 9 || d.M == 11) }
func monthEdge(d ref.DT) bool   { return d.D == 1 || d.D == ref.LastDayNumber(d.Y, d.M) }
func eq(a *calendar.Solar, b ref.DT) bool {
	return gen.FromSolar(a) == b
}
func inRangeJ(j int) bool { return j >= ref.JDNMin && j <= ref.JDNMax }

// ------------------------------------------------------------------------------------------
// 1. date-time -> JD -> date-time, JD value against R-civil, weekday

type dtCase struct{ T ref.DT }

var jdRoundTrip = ev.Register(&ev.P[dtCase]{
	Name: "jd_roundtrip",
	Rule: "generated/enumerated valid date-times; oracle: JD == JDN-0.5+sod/86400 (1e-8), NewSolarFromJulianDay(JD)==input, weekday==(JDN+1)%7; non-trivial: touches 1582-09..11, month first/last day, Feb 29, or 23:59:59/00:00:00",
	Check: func(c dtCase) error {
		t := c.T
		s := gen.Solar(t)
		j := ref.JDN(t.Y, t.M, t.D)
		want := float64(j) - 0.5 + float64(t.H*3600+t.Mi*60+t.S)/86400
		jd := s.GetJulianDay()
		if math.Abs(jd-want) > 1e-8 {
			return fmt.Errorf("%v: GetJulianDay=%.9f, R-civil says %.9f", t, jd, want)
		}
		if u := SolarUtil.GetJulianDay(t.Y, t.M, t.D, t.H, t.Mi, t.S); u != jd {
			return fmt.Errorf("%v: SolarUtil.GetJulianDay=%.9f differs from Solar.GetJulianDay=%.9f", t, u, jd)
		}
		back := calendar.NewSolarFromJulianDay(jd)
		if !eq(back, t) {
			return fmt.Errorf("%v: NewSolarFromJulianDay(GetJulianDay()) = %s", t, back.ToYmdHms())
		}
		if w := s.GetWeek(); w != ref.Weekday(j) {
			return fmt.Errorf("%v: GetWeek=%d, want %d", t, w, ref.Weekday(j))
		}
		if w := SolarUtil.GetWeek(t.Y, t.M, t.D); w != ref.Weekday(j) {
			return fmt.Errorf("%v: SolarUtil.GetWeek=%d, want %d", t, w, ref.Weekday(j))
		}
		return nil
	},
	Class: func(c dtCase) ([]string, bool) {
		t := c.T
		ls := []string{gen.Era(t.Y)}
		nt := false
		if touchesSeam(t) {
			ls, nt = append(ls, "seam1582"), true
		}
		if monthEdge(t) {
			ls, nt = append(ls, "monthEdge"), true
		}
		if t.M == 2 && t.D == 29 {
			ls, nt = append(ls, "feb29"), true
		}
		if (t.H == 23 && t.Mi == 59 && t.S == 59) || (t.H == 0 && t.Mi == 0 && t.S == 0) {
			ls, nt = append(ls, "midnightEdge"), true
		}
		return ls, nt
	},
	Require: []string{"seam1582", "monthEdge", "midnightEdge"},
})

// ------------------------------------------------------------------------------------------
// 2. any real-valued JD -> valid date-time, the nearest second

type jdCase struct {
	T      ref.DT // nearest whole second
	Micros int    // offset of the instant from T in microseconds, |Micros| <= 499000
}

var jdInverse = ev.Register(&ev.P[jdCase]{
	Name: "jd_inverse_real",
	Rule: "instant = generated date-time + offset in (-0.499 s, +0.499 s) as a float64 Julian Day; oracle: NewSolarFromJulianDay returns (no panic) the R-civil-valid date-time of the nearest second; non-trivial: the instant lies in the last half second before a day/month/year end or touches 1582-10",
	Check: func(c jdCase) error {
		t := c.T
		j := ref.JDN(t.Y, t.M, t.D)
		jd := float64(j) - 0.5 + (float64(t.H*3600+t.Mi*60+t.S)+float64(c.Micros)/1e6)/86400
		got := calendar.NewSolarFromJulianDay(jd)
		g := gen.FromSolar(got)
		if !ref.Valid(g.Y, g.M, g.D, g.H, g.Mi, g.S) {
			return fmt.Errorf("JD %.9f -> invalid date-time %v", jd, g)
		}
		if g != t {
			return fmt.Errorf("JD %.9f (= %v %+d us) -> %v, nearest second is %v", jd, t, c.Micros, g, t)
		}
		return nil
	},
	Class: func(c jdCase) ([]string, bool) {
		t := c.T
		ls := []string{gen.Era(t.Y)}
		nt := false
		if t.H == 0 && t.Mi == 0 && t.S == 0 && c.Micros < 0 {
			ls, nt = append(ls, "lastHalfSecondOfDay"), true
			if t.D == 1 || (t.Y == 1582 && t.M == 10 && t.D == 15) {
				ls = append(ls, "lastHalfSecondOfMonth")
			}
			if t.D == 1 && t.M == 1 {
				ls = append(ls, "lastHalfSecondOfYear")
			}
		}
		if touchesSeam(t) {
			ls, nt = append(ls, "seam1582"), true
		}
		if t.S == 59 && c.Micros > 0 || t.S == 0 && c.Micros < 0 {
			ls, nt = append(ls, "carry"), true
		}
		return ls, nt
	},
	Require: []string{"lastHalfSecondOfDay", "lastHalfSecondOfMonth", "lastHalfSecondOfYear", "carry", "seam1582"},
})

// ------------------------------------------------------------------------------------------
// 3. day stepping

type stepCase struct {
	T    ref.DT
	N, M int
}

var dayStep = ev.Register(&ev.P[stepCase]{
	Name: "day_step",
	Rule: "generated date-time and day counts n, m of both signs; oracle R-civil: NextDay(n)==FromJDN(JDN+n) with time kept, JD changes by exactly n, NextDay(n).NextDay(-n)==id, NextDay(n).NextDay(m)==NextDay(n+m), Next(n,false)==NextDay(n), Subtract/SubtractMinute/GetDaysBetween/IsBefore/IsAfter agree with n; non-trivial: the walk crosses 1582-10, a year end with a negative step, or a Feb 29",
	Check: func(c stepCase) error {
		t := c.T
		j := ref.JDN(t.Y, t.M, t.D)
		if !inRangeJ(j+c.N) || !inRangeJ(j+c.N+c.M) {
			return nil
		}
		s := gen.Solar(t)
		want := t.AddDays(c.N)
		nx := s.NextDay(c.N)
		if !eq(nx, want) {
			return fmt.Errorf("%v NextDay(%d) = %s, R-civil says %v", t, c.N, nx.ToYmdHms(), want)
		}
		if d := nx.GetJulianDay() - s.GetJulianDay(); math.Abs(d-float64(c.N)) > 1e-8 {
			return fmt.Errorf("%v NextDay(%d): JD changes by %.9f", t, c.N, d)
		}
		if b := nx.NextDay(-c.N); !eq(b, t) {
			return fmt.Errorf("%v NextDay(%d).NextDay(%d) = %s", t, c.N, -c.N, b.ToYmdHms())
		}
		if a, b := nx.NextDay(c.M), s.NextDay(c.N+c.M); gen.FromSolar(a) != gen.FromSolar(b) {
			return fmt.Errorf("%v NextDay(%d).NextDay(%d) = %s but NextDay(%d) = %s", t, c.N, c.M, a.ToYmdHms(), c.N+c.M, b.ToYmdHms())
		}
		if a := s.Next(c.N, false); !eq(a, want) {
			return fmt.Errorf("%v Next(%d,false) = %s, want %v", t, c.N, a.ToYmdHms(), want)
		}
		if d := nx.Subtract(s); d != c.N {
			return fmt.Errorf("%s.Subtract(%v) = %d, want %d", nx.ToYmd(), t, d, c.N)
		}
		if d := s.Subtract(nx); d != -c.N {
			return fmt.Errorf("%v.Subtract(%s) = %d, want %d", t, nx.ToYmd(), d, -c.N)
		}
		if d := nx.SubtractMinute(s); d != c.N*1440 {
			return fmt.Errorf("%s.SubtractMinute(%v) = %d, want %d", nx.ToYmdHms(), t, d, c.N*1440)
		}
		if d := SolarUtil.GetDaysBetween(t.Y, t.M, t.D, want.Y, want.M, want.D); d != c.N {
			return fmt.Errorf("GetDaysBetween(%v,%v) = %d, want %d", t, want, d, c.N)
		}
		if nx.IsAfter(s) != (c.N > 0) || s.IsBefore(nx) != (c.N > 0) || nx.IsBefore(s) != (c.N < 0) || s.IsAfter(nx) != (c.N < 0) {
			return fmt.Errorf("%v vs NextDay(%d): IsAfter/IsBefore inconsistent with the step sign", t, c.N)
		}
		if SolarUtil.IsBefore(t.Y, t.M, t.D, t.H, t.Mi, t.S, want.Y, want.M, want.D, want.H, want.Mi, want.S) != (c.N > 0) {
			return fmt.Errorf("SolarUtil.IsBefore(%v,%v) inconsistent with step %d", t, want, c.N)
		}
		return nil
	},
	Class: func(c stepCase) ([]string, bool) {
		t := c.T
		j := ref.JDN(t.Y, t.M, t.D)
		ls := []string{gen.Era(t.Y)}
		nt := false
		lo, hi := j, j+c.N
		if lo > hi {
			lo, hi = hi, lo
		}
		if lo <= ref.JDNGregorianStart && hi >= ref.JDNGregorianStart-1 {
			ls, nt = append(ls, "crossesSeam"), true
		}
		if c.N < 0 {
			ls = append(ls, "negative")
			if y2, _, _ := ref.FromJDN(j + c.N); y2 != t.Y {
				ls, nt = append(ls, "negativeAcrossYear"), true
			}
		}
		if c.N == 0 {
			ls = append(ls, "zero")
		}
		if t.M == 2 && t.D == 29 {
			ls, nt = append(ls, "feb29"), true
		}
		if monthEdge(t) {
			ls, nt = append(ls, "monthEdge"), true
		}
		return ls, nt
	},
	Require: []string{"crossesSeam", "negativeAcrossYear", "zero", "monthEdge"},
})

// ------------------------------------------------------------------------------------------
// 4. comparisons and minute differences of two independent date-times

type pairCase struct{ A, B ref.DT }

var compare = ev.Register(&ev.P[pairCase]{
	Name: "compare_subtract",
	Rule: "two generated date-times (often equal dates, or differing only in one clock field); oracle: IsBefore/IsAfter == strict instant order (irreflexive, antisymmetric), Subtract == JDN difference, SubtractMinute == difference of whole-minute counts; non-trivial: same civil day, or the pair straddles 1582-10",
	Check: func(c pairCase) error {
		a, b := gen.Solar(c.A), gen.Solar(c.B)
		sa, sb := c.A.Sec(), c.B.Sec()
		if a.IsBefore(b) != (sa < sb) || a.IsAfter(b) != (sa > sb) || b.IsBefore(a) != (sb < sa) || b.IsAfter(a) != (sb > sa) {
			return fmt.Errorf("%v vs %v: IsBefore=%v IsAfter=%v, instants %d vs %d", c.A, c.B, a.IsBefore(b), a.IsAfter(b), sa, sb)
		}
		dj := ref.JDN(c.A.Y, c.A.M, c.A.D) - ref.JDN(c.B.Y, c.B.M, c.B.D)
		if d := a.Subtract(b); d != dj {
			return fmt.Errorf("%v.Subtract(%v) = %d, want %d", c.A, c.B, d, dj)
		}
		ma := int64(ref.JDN(c.A.Y, c.A.M, c.A.D))*1440 + int64(c.A.H*60+c.A.Mi)
		mb := int64(ref.JDN(c.B.Y, c.B.M, c.B.D))*1440 + int64(c.B.H*60+c.B.Mi)
		if d := a.SubtractMinute(b); int64(d) != ma-mb {
			return fmt.Errorf("%v.SubtractMinute(%v) = %d, want %d", c.A, c.B, d, ma-mb)
		}
		return nil
	},
	Class: func(c pairCase) ([]string, bool) {
		var ls []string
		nt := false
		if c.A.Y == c.B.Y && c.A.M == c.B.M && c.A.D == c.B.D {
			ls, nt = append(ls, "sameDay"), true
		}
		if c.A == c.B {
			ls = append(ls, "equal")
		}
		ja, jb := ref.JDN(c.A.Y, c.A.M, c.A.D), ref.JDN(c.B.Y, c.B.M, c.B.D)
		if (ja < ref.JDNGregorianStart) != (jb < ref.JDNGregorianStart) {
			ls, nt = append(ls, "straddlesSeam"), true
		}
		return ls, nt
	},
	Require: []string{"sameDay", "equal", "straddlesSeam"},
})

// ------------------------------------------------------------------------------------------
// 5. hour / month / year stepping

var hourStep = ev.Register(&ev.P[stepCase]{
	Name: "hour_step",
	Rule: "generated date-time, hour count n of both signs and any size that stays within years 2..9997 (up to ±87 million hours); oracle: NextHour(n) == the instant + 3600 n seconds by R-civil; the receiver is unchanged by stepping (asked again with 0, ±1 and small steps, then read back); non-trivial: crosses a day boundary backwards, or 1582-10",
	Check: func(c stepCase) error {
		t := c.T
		want := ref.FromSec(t.Sec() + int64(c.N)*3600)
		if want.Y < 1 || want.Y > 9998 {
			return nil
		}
		src := gen.Solar(t)
		got := src.NextHour(c.N)
		if !eq(got, want) {
			return fmt.Errorf("%v NextHour(%d) = %s, R-civil says %v", t, c.N, got.ToYmdHms(), want)
		}
		// stepping returns a new moment and leaves its receiver alone: the same object steps again (small steps stay
		// within the day) and still is the moment it was built as
		for _, k := range []int{0, 1, -1, c.N % 5} {
			if w2 := ref.FromSec(t.Sec() + int64(k)*3600); w2.Y >= 1 && w2.Y <= 9998 {
				if g2 := src.NextHour(k); !eq(g2, w2) {
					return fmt.Errorf("%v NextHour(%d) on an object that was stepped before = %s, R-civil says %v", t, k, g2.ToYmdHms(), w2)
				}
			}
		}
		if d0 := src.NextDay(0); !eq(src, t) || !eq(d0, t) {
			return fmt.Errorf("%v: after NextHour/NextDay calls the receiver reads %s (NextDay(0) = %s)", t, src.ToYmdHms(), d0.ToYmdHms())
		}
		return nil
	},
	Class: func(c stepCase) ([]string, bool) {
		t := c.T
		want := ref.FromSec(t.Sec() + int64(c.N)*3600)
		var ls []string
		nt := false
		if c.N < 0 && (want.D != t.D || want.M != t.M) {
			ls, nt = append(ls, "backAcrossDay"), true
		}
		if touchesSeam(t) || touchesSeam(want) {
			ls, nt = append(ls, "seam1582"), true
		}
		if c.N%24 == 0 {
			ls = append(ls, "wholeDays")
		}
		if c.N > 3000000 || c.N < -3000000 {
			ls = append(ls, "over3MillionHours")
		}
		return ls, nt
	},
	Require: []string{"backAcrossDay", "seam1582", "over3MillionHours"},
})

var monthStep = ev.Register(&ev.P[stepCase]{
	Name: "month_year_step",
	Rule: "generated date-time, month count N and year count M of both signs; oracle R-civil: NextMonth keeps the day number clamped to the target month's last day (days 5..14 landing in 1582-10 move forward 10), NextYear likewise for Feb 29 and 1582-10; non-trivial: day >= 29, target is 1582-10, or negative step across a year",
	Check: func(c stepCase) error {
		t := c.T
		s := gen.Solar(t)
		want := t.AddMonths(c.N)
		if want.Y >= 1 && want.Y <= 9998 {
			got := s.NextMonth(c.N)
			if !eq(got, want) {
				return fmt.Errorf("%v NextMonth(%d) = %s, R-civil says %v", t, c.N, got.ToYmdHms(), want)
			}
		}
		y := t.Y + c.M
		if y >= 1 && y <= 9998 {
			d := t.D
			if y == 1582 && t.M == 10 {
				if d > 4 && d < 15 {
					d += 10
				}
			} else if d > ref.DaysInMonth(y, t.M) && !(t.Y == 1582 && t.M == 10) {
				d = ref.DaysInMonth(y, t.M)
			}
			wy := ref.DT{Y: y, M: t.M, D: d, H: t.H, Mi: t.Mi, S: t.S}
			got := s.NextYear(c.M)
			if !eq(got, wy) {
				return fmt.Errorf("%v NextYear(%d) = %s, R-civil says %v", t, c.M, got.ToYmdHms(), wy)
			}
		}
		return nil
	},
	Class: func(c stepCase) ([]string, bool) {
		t := c.T
		want := t.AddMonths(c.N)
		var ls []string
		nt := false
		if t.D >= 29 {
			ls, nt = append(ls, "day29plus"), true
		}
		if want.Y == 1582 && want.M == 10 || t.Y+c.M == 1582 && t.M == 10 {
			ls, nt = append(ls, "into1582-10"), true
		}
		if c.N < 0 && want.Y != t.Y {
			ls, nt = append(ls, "negativeAcrossYear"), true
		}
		if t.M == 2 && t.D == 29 {
			ls = append(ls, "feb29")
		}
		return ls, nt
	},
	Require: []string{"day29plus", "into1582-10", "negativeAcrossYear", "feb29"},
})

// ------------------------------------------------------------------------------------------
// 5b. a civil date-time is its six numbers, however the object was reached

type rstep struct {
	Kind string
	N    int
}

type routeCase struct {
	T     ref.DT
	Src   string
	Steps []rstep // stepping / conversion calls; "prime:*" steps only read the current object
}

var routeSources = []string{"NewSolar", "FromJulianDay", "ViaLunar", "WeekDay", "MonthDay", "FromYmd", "NextDayFromEve"}
var routeSteps = []string{"NextDay", "NextHour", "NextMonth", "NextYear", "Next", "NextWorkday", "LunarAndBack", "JulianDayAndBack", "LunarNext",
	"prime:ToYmdHms", "prime:ToYmd", "prime:ToFullString", "prime:GetJulianDay", "prime:GetWeek", "prime:GetLunar", "prime:GetFestivals", "prime:GetXingZuo", "prime:String"}

func digestLines(d map[string]string) string {
	ks := make([]string, 0, len(d))
	for k := range d {
		ks = append(ks, k)
	}
	sort.Strings(ks)
	var sb strings.Builder
	for _, k := range ks {
		sb.WriteString(k + "=" + d[k] + "\n")
	}
	return sb.String()
}

var routes = ev.Register(&ev.P[routeCase]{
	Name: "route_independence",
	Rule: "a generated date-time, a generated way of obtaining its object (NewSolar, NewSolarFromYmd, NewSolarFromJulianDay of its own Julian Day, Lunar.GetSolar, an element of SolarWeek.GetDays / SolarMonth.GetDays, NextDay(1) of the eve) and a generated chain of 1..8 stepping/conversion calls (NextDay/NextHour incl. steps that stay within the day/NextMonth/NextYear/Next(n,false)/Next(n,true)/GetLunar().GetSolar()/NewSolarFromJulianDay(GetJulianDay())/Lunar.Next(n).GetSolar()) interleaved with read-only calls on the intermediate objects (printing, Julian Day, weekday, lunar conversion, festivals); oracle: the object reached answers every zero-argument accessor (Julian Day, weekday, both printed forms, festivals, sign, lunar conversion, …) exactly like NewSolar built afresh from its own six numbers — an object remembers nothing of the route it came by; non-trivial: the source is not NewSolar or the chain holds a read-only call followed by a step",
	Check: func(c routeCase) (err error) {
		defer func() {
			if r := recover(); r != nil {
				err = nil // a step left the supported range: not this sub-property's subject
			}
		}()
		t := c.T
		var s *calendar.Solar
		switch c.Src {
		case "NewSolar":
			s = gen.Solar(t)
		case "FromJulianDay":
			s = calendar.NewSolarFromJulianDay(gen.Solar(t).GetJulianDay())
		case "ViaLunar":
			s = gen.Solar(t).GetLunar().GetSolar()
		case "WeekDay":
			for e := calendar.NewSolarWeekFromYmd(t.Y, t.M, t.D, t.S%7).GetDays().Front(); e != nil; e = e.Next() {
				if x := e.Value.(*calendar.Solar); x.GetDay() == t.D && x.GetMonth() == t.M {
					s = x
				}
			}
		case "MonthDay":
			for e := calendar.NewSolarMonthFromYm(t.Y, t.M).GetDays().Front(); e != nil; e = e.Next() {
				if x := e.Value.(*calendar.Solar); x.GetDay() == t.D {
					s = x
				}
			}
		case "FromYmd":
			s = calendar.NewSolarFromYmd(t.Y, t.M, t.D)
		case "NextDayFromEve":
			e := t.AddDays(-1)
			s = gen.Solar(e).NextDay(1)
		}
		if s == nil {
			return nil
		}
		for _, st := range c.Steps {
			if s.GetYear() < 3 || s.GetYear() > 9996 {
				return nil
			}
			switch st.Kind {
			case "NextDay":
				s = s.NextDay(st.N)
			case "NextHour":
				s = s.NextHour(st.N)
			case "NextMonth":
				s = s.NextMonth(st.N)
			case "NextYear":
				s = s.NextYear(st.N % 40)
			case "Next":
				s = s.Next(st.N, false)
			case "NextWorkday":
				s = s.Next(st.N%9, true)
			case "LunarAndBack":
				s = s.GetLunar().GetSolar()
			case "JulianDayAndBack":
				s = calendar.NewSolarFromJulianDay(s.GetJulianDay())
			case "LunarNext":
				s = s.GetLunar().Next(st.N).GetSolar()
			case "prime:ToYmdHms":
				_ = s.ToYmdHms()
			case "prime:ToYmd":
				_ = s.ToYmd()
			case "prime:ToFullString":
				_ = s.ToFullString()
			case "prime:GetJulianDay":
				_ = s.GetJulianDay()
			case "prime:GetWeek":
				_ = s.GetWeek()
			case "prime:GetLunar":
				_ = s.GetLunar().String()
			case "prime:GetFestivals":
				_ = s.GetFestivals().Len() + s.GetOtherFestivals().Len()
			case "prime:GetXingZuo":
				_ = s.GetXingZuo()
			case "prime:String":
				_ = s.String()
			}
		}
		f := gen.FromSolar(s)
		if !ref.Valid(f.Y, f.M, f.D, f.H, f.Mi, f.S) {
			return fmt.Errorf("%v via %s %v: the object reached reads %v, which is not a date-time", t, c.Src, c.Steps, f)
		}
		if f.Y < 2 || f.Y > 9997 {
			return nil
		}
		got, want := digestLines(dig.Of(s, 0)), digestLines(dig.Of(gen.Solar(f), 0))
		if got != want {
			return fmt.Errorf("%v via %s %v: the object reached reads %v but does not answer like NewSolar of those numbers: %s", t, c.Src, c.Steps, f, dig.Diff(dig.Of(s, 0), dig.Of(gen.Solar(f), 0), 4))
		}
		return nil
	},
	Class: func(c routeCase) ([]string, bool) {
		ls := []string{"src:" + c.Src}
		nt := c.Src != "NewSolar"
		primed := false
		for _, st := range c.Steps {
			if strings.HasPrefix(st.Kind, "prime:") {
				primed = true
			} else if primed {
				ls, nt = append(ls, "stepAfterRead"), true
				primed = false
			}
			if st.Kind == "NextHour" && st.N > -24 && st.N < 24 {
				ls = append(ls, "shortHourStep")
			}
		}
		return ls, nt
	},
	Require: []string{"src:FromJulianDay", "src:ViaLunar", "src:WeekDay", "src:MonthDay", "stepAfterRead", "shortHourStep"},
})

func genRoute(t *rapid.T) routeCase {
	c := routeCase{T: gen.MomentIn(t, 3, 9996), Src: rapid.SampledFrom(routeSources).Draw(t, "src")}
	if c.Src == "WeekDay" || c.Src == "MonthDay" || c.Src == "FromYmd" {
		c.T.H, c.T.Mi = 0, 0
		if c.Src != "WeekDay" {
			c.T.S = 0
		}
	}
	n := rapid.IntRange(1, 8).Draw(t, "steps")
	for i := 0; i < n; i++ {
		k := rapid.SampledFrom(routeSteps).Draw(t, "step")
		c.Steps = append(c.Steps, rstep{k, rapid.SampledFrom([]int{0, 1, -1, 2, 5, -5, 12, -13, 23, -23, 24, 30, -31, 365, -366}).Draw(t, "n")})
	}
	return c
}

// ------------------------------------------------------------------------------------------
// 6. utilities per (year, month)

type ymCase struct{ Y, M int }

var utils = ev.Register(&ev.P[ymCase]{
	Name: "month_tables",
	Rule: "every (year, month) enumerated (hot years in quick, all 9998 years in thorough); oracle R-civil: IsLeapYear (Julian rule through 1582), GetDaysOfMonth (21 for 1582-10), GetDaysOfYear (355 for 1582), GetDaysInYear == ordinal of every existing day, consecutive days differ by one in JD and weekday; non-trivial: February, 1582, century years",
	Check: func(c ymCase) error {
		y, m := c.Y, c.M
		if SolarUtil.IsLeapYear(y) != ref.IsLeap(y) {
			return fmt.Errorf("IsLeapYear(%d) = %v", y, SolarUtil.IsLeapYear(y))
		}
		if calendar.NewSolarFromYmd(y, m, 1).IsLeapYear() != ref.IsLeap(y) {
			return fmt.Errorf("Solar.IsLeapYear(%d) wrong", y)
		}
		if d := SolarUtil.GetDaysOfYear(y); d != ref.DaysInYear(y) {
			return fmt.Errorf("GetDaysOfYear(%d) = %d, want %d", y, d, ref.DaysInYear(y))
		}
		if d := SolarUtil.GetDaysOfMonth(y, m); d != ref.DaysInMonth(y, m) {
			return fmt.Errorf("GetDaysOfMonth(%d,%d) = %d, want %d", y, m, d, ref.DaysInMonth(y, m))
		}
		var prev *calendar.Solar
		for d := 1; d <= 31; d++ {
			if !ref.ValidDate(y, m, d) {
				continue
			}
			if o := SolarUtil.GetDaysInYear(y, m, d); o != ref.OrdinalInYear(y, m, d) {
				return fmt.Errorf("GetDaysInYear(%d,%d,%d) = %d, want %d", y, m, d, o, ref.OrdinalInYear(y, m, d))
			}
			cur := calendar.NewSolarFromYmd(y, m, d)
			if prev != nil {
				if dj := cur.GetJulianDay() - prev.GetJulianDay(); dj != 1 {
					return fmt.Errorf("JD(%s)-JD(%s) = %v", cur.ToYmd(), prev.ToYmd(), dj)
				}
				if (prev.GetWeek()+1)%7 != cur.GetWeek() {
					return fmt.Errorf("weekday does not advance by one from %s to %s", prev.ToYmd(), cur.ToYmd())
				}
				if n := prev.NextDay(1); n.ToYmd() != cur.ToYmd() {
					return fmt.Errorf("%s NextDay(1) = %s, want %s", prev.ToYmd(), n.ToYmd(), cur.ToYmd())
				}
				if n := cur.NextDay(-1); n.ToYmd() != prev.ToYmd() {
					return fmt.Errorf("%s NextDay(-1) = %s, want %s", cur.ToYmd(), n.ToYmd(), prev.ToYmd())
				}
			}
			prev = cur
		}
		// the month's last day is followed by the next month's first
		if !(y == 9998 && m == 12) {
			ny, nm := y, m+1
			if nm > 12 {
				ny, nm = y+1, 1
			}
			n := prev.NextDay(1)
			if n.GetYear() != ny || n.GetMonth() != nm || n.GetDay() != 1 {
				return fmt.Errorf("%s NextDay(1) = %s, want %04d-%02d-01", prev.ToYmd(), n.ToYmd(), ny, nm)
			}
			if (prev.GetWeek()+1)%7 != n.GetWeek() || n.GetJulianDay()-prev.GetJulianDay() != 1 {
				return fmt.Errorf("weekday/JD do not advance by one from %s to %s", prev.ToYmd(), n.ToYmd())
			}
		}
		return nil
	},
	Class: func(c ymCase) ([]string, bool) {
		var ls []string
		nt := false
		if c.M == 2 {
			ls, nt = append(ls, "february"), true
		}
		if c.Y == 1582 {
			ls, nt = append(ls, "y1582"), true
		}
		if c.Y%100 == 0 {
			ls, nt = append(ls, "century"), true
		}
		return ls, nt
	},
	Require:  []string{"february", "y1582", "century"},
	Disjoint: true,
})

// ------------------------------------------------------------------------------------------
// generators

func genDT(t *rapid.T) ref.DT { return gen.Moment(t) }

func genSeamOrAny(t *rapid.T) ref.DT {
	if rapid.IntRange(0, 3).Draw(t, "seamBias") == 0 {
		j := ref.JDN(1582, 9, 20) + rapid.IntRange(0, 50).Draw(t, "seamDay")
		y, m, d := ref.FromJDN(j)
		h, mi, s := gen.Time(t)
		return ref.DT{Y: y, M: m, D: d, H: h, Mi: mi, S: s}
	}
	return genDT(t)
}

func TestC04(t *testing.T) {
	ev.Assume("R-civil: integer Julian-Day-Number formulas (Julian to 1582-10-04, Gregorian from 1582-10-15) are the definition of the civil calendar")
	// ---- deterministic sweeps
	years := gen.HotYears()
	if ev.Thorough() {
		years = nil
		for y := 1; y <= 9998; y++ {
			years = append(years, y)
		}
		utils.Exhaustive("every month of every year 1..9998 (every existing day visited)")
	}
	for _, y := range years {
		if !ev.Mine(y) {
			continue
		}
		for m := 1; m <= 12; m++ {
			utils.Eval(ymCase{y, m})
		}
	}
	// JD round trip on every day of the sweep years at three clock times (thorough) / month edges (quick)
	for _, y := range years {
		if !ev.Mine(y) {
			continue
		}
		for m := 1; m <= 12; m++ {
			for d := 1; d <= 31; d++ {
				if !ref.ValidDate(y, m, d) {
					continue
				}
				if !ev.Thorough() && !(d == 1 || d == ref.LastDayNumber(y, m) || (y == 1582 && m == 10)) {
					continue
				}
				for _, c := range [][3]int{{0, 0, 0}, {12, 0, 0}, {23, 59, 59}} {
					jdRoundTrip.Eval(dtCase{ref.DT{Y: y, M: m, D: d, H: c[0], Mi: c[1], S: c[2]}})
				}
				// the half second before and after each midnight
				for _, us := range []int{-499000, -250000, -1000, 1000, 499000} {
					jdInverse.Eval(jdCase{ref.DT{Y: y, M: m, D: d}, us})
				}
			}
		}
	}
	// ---- rapid
	routes.Rapid(ev.Share(ev.Pick(12000, 240000)), genRoute)
	jdRoundTrip.Rapid(ev.Share(ev.Pick(20000, 400000)), func(t *rapid.T) dtCase { return dtCase{genSeamOrAny(t)} })
	jdInverse.Rapid(ev.Share(ev.Pick(40000, 800000)), func(t *rapid.T) jdCase {
		d := genSeamOrAny(t)
		k := rapid.IntRange(0, 9).Draw(t, "edge")
		switch {
		case k < 4: // midnight, approached from below or above
			d.H, d.Mi, d.S = 0, 0, 0
			if k < 2 {
				d.D = 1
				if k == 0 {
					d.M = 1
				}
			}
		case k < 6:
			d.H, d.Mi, d.S = 23, 59, 59
		}
		us := rapid.IntRange(-499000, 499000).Draw(t, "micros")
		if rapid.Bool().Draw(t, "nearHalf") {
			us = rapid.SampledFrom([]int{-499000, -498999, -400000, -1, 1, 400000, 499000}).Draw(t, "microsEdge")
		}
		return jdCase{d, us}
	})
	dayStep.Rapid(ev.Share(ev.Pick(20000, 400000)), func(t *rapid.T) stepCase {
		d, n := genSeamOrAny(t), gen.Step(t, 200000)
		if rapid.IntRange(0, 4).Draw(t, "wholeRange") == 0 { // any step that stays in range (up to +-3.65 million days)
			n = rapid.IntRange(ref.JDN(2, 1, 1), ref.JDN(9997, 12, 31)).Draw(t, "targetDay") - ref.JDN(d.Y, d.M, d.D)
		}
		return stepCase{d, n, gen.Step(t, 2000)}
	})
	compare.Rapid(ev.Share(ev.Pick(20000, 400000)), func(t *rapid.T) pairCase {
		a := genSeamOrAny(t)
		var b ref.DT
		switch rapid.IntRange(0, 4).Draw(t, "pairKind") {
		case 0:
			b = a
		case 1: // same day, another clock time
			b = a
			b.H, b.Mi, b.S = gen.Time(t)
		case 2: // differs in exactly one field by one unit
			b = ref.FromSec(a.Sec() + rapid.SampledFrom([]int64{1, -1, 60, -60, 3600, -3600, 86400, -86400}).Draw(t, "delta"))
			if b.Y < 1 || b.Y > 9998 {
				b = a
			}
		default:
			b = genSeamOrAny(t)
		}
		return pairCase{a, b}
	})
	hourStep.Rapid(ev.Share(ev.Pick(20000, 400000)), func(t *rapid.T) stepCase {
		n := gen.Step(t, 100000)
		d := genSeamOrAny(t)
		switch rapid.IntRange(0, 3).Draw(t, "size") {
		case 0, 1:
			n = rapid.IntRange(-50, 50).Draw(t, "hours")
		case 2: // any step that stays in range: up to +-87 million hours (the whole 9 998 years)
			lo, hi := (ref.DT{Y: 2, M: 1, D: 1}).Sec(), (ref.DT{Y: 9997, M: 12, D: 31}).Sec()
			target := lo + rapid.Int64Range(0, (hi-lo)/3600).Draw(t, "targetHour")*3600
			n = int((target - d.Sec()) / 3600)
		}
		return stepCase{T: d, N: n}
	})
	monthStep.Rapid(ev.Share(ev.Pick(20000, 400000)), func(t *rapid.T) stepCase {
		d := genSeamOrAny(t)
		if rapid.IntRange(0, 3).Draw(t, "late") == 0 {
			d.D = ref.LastDayNumber(d.Y, d.M) - rapid.IntRange(0, 2).Draw(t, "back")
		}
		n := gen.Step(t, 1200)
		m := gen.Step(t, 100)
		if rapid.IntRange(0, 4).Draw(t, "wholeRange") == 0 { // any step that stays in range (up to +-120 000 months / 9 995 years)
			ty := rapid.IntRange(2, 9997).Draw(t, "targetYear")
			n = ty*12 + rapid.IntRange(1, 12).Draw(t, "targetMonth") - (d.Y*12 + d.M)
			m = ty - d.Y
		}
		if rapid.IntRange(0, 5).Draw(t, "aim1582") == 0 { // aim at 1582-10
			n = (1582*12 + 9) - (d.Y*12 + d.M - 1)
			m = 1582 - d.Y
			if rapid.Bool().Draw(t, "oct") {
				d.M = 10
				if !ref.ValidDate(d.Y, d.M, d.D) {
					d.D = 4
				}
			}
		}
		return stepCase{T: d, N: n, M: m}
	})
}

// ------------------------------------------------------------------------------------------
// native fuzz targets (thorough tier, additive): same oracles, byte-level coverage-guided inputs

func FuzzJulianDay(f *testing.F) {
	for _, jd := range []float64{1721423.5, 2299159.5, 2299160.4999999, 2299160.5, 2451544.5, 2451545.0, 2451544.9999942, 5373483.4999999, 2460000.99999, 1721454.4999999} {
		f.Add(jd)
	}
	f.Fuzz(func(t *testing.T, jd float64) {
		if !(jd >= 1721424.0 && jd <= 5373118.0) { // 0001-01-01 12:00 .. 9998-12-31 12:00
			return
		}
		// decompose into the nearest whole second and the offset from it; skip the ambiguous half-second ties
		sec := (jd + 0.5) * 86400
		near := math.Round(sec)
		us := int(math.Round((sec - near) * 1e6))
		if us > 499000 || us < -499000 {
			return
		}
		d := ref.FromSec(int64(near))
		if d.Y < 1 || d.Y > 9998 {
			return
		}
		ev.FuzzCheck(t, jdInverse, jdCase{d, us})
	})
}

func FuzzStep(f *testing.F) {
	f.Add(1582, 10, 4, 23, 59, 59, 1, 1)
	f.Add(1582, 10, 15, 0, 0, 0, -1, -1)
	f.Add(2000, 2, 29, 12, 0, 0, 366, -366)
	f.Add(1, 1, 1, 0, 0, 0, 200000, 7)
	f.Add(9998, 12, 31, 23, 59, 59, -200000, -7)
	f.Fuzz(func(t *testing.T, y, m, d, h, mi, s, n, k int) {
		if !ref.Valid(y, m, d, h, mi, s) || y < 1 || y > 9998 || n > 4000000 || n < -4000000 || k > 4000000 || k < -4000000 {
			return
		}
		c := stepCase{ref.DT{Y: y, M: m, D: d, H: h, Mi: mi, S: s}, n, k}
		ev.FuzzCheck(t, dayStep, c)
		if n > -200000 && n < 200000 {
			ev.FuzzCheck(t, hourStep, stepCase{T: c.T, N: n})
			ev.FuzzCheck(t, monthStep, stepCase{T: c.T, N: n % 2400, M: k % 200})
		}
	})
}
