//go:build verif

// C05 — year/month/day/hour pillars run in unbroken 60-cycles with exact change-overs.
// Oracle: R-gz + R-civil + the term instants of the civil year's table (whose correctness is C03's).
package c05

import (
	"fmt"
	"testing"

	"github.com/6tail/lunar-go/LunarUtil"
	"github.com/6tail/lunar-go/calendar"
	"pgregory.net/rapid"
	"verif/internal/ev"
	"verif/internal/gen"
	"verif/internal/ref"
)

func TestMain(m *testing.M) { ev.Main(m, "C05") }

type momentCase struct{ T ref.DT }

// jie returns the 16 Jie instants (even positions of the 31-entry table) of civil year y.
func jie(y int) []ref.DT {
	ts := gen.Terms(y)
	var out []ref.DT
	for i := 0; i < len(ts); i += 2 {
		out = append(out, ts[i])
	}
	return out
}

type model struct {
	yearNY, yearLC, yearEx    int // cycle indices
	monthDay, monthEx         int
	day, dayEx, dayEx2        int
	timeZhi, timeGan          int
	kDay, kEx                 int
	jieInSlot, onJieDay, ny23 bool
}

func expect(t ref.DT, lunarYear int) model {
	var m model
	js := jie(t.Y)
	day := int64(ref.JDN(t.Y, t.M, t.D))
	now := t.Sec()
	for _, x := range js {
		jd := int64(ref.JDN(x.Y, x.M, x.D))
		if jd <= day {
			m.kDay++
		}
		if jd == day {
			m.onJieDay = true
		}
		if x.Sec() <= now {
			m.kEx++
		}
		if d := x.Sec() - now; d >= -7200 && d <= 7200 {
			m.jieInSlot = true
		}
	}
	aDay := 12*(t.Y-1) + 9 + m.kDay
	aEx := 12*(t.Y-1) + 9 + m.kEx
	m.yearNY = ref.YearPillar(lunarYear)
	m.yearLC = ref.YearPillar(ref.FloorDiv(aDay, 12))
	m.yearEx = ref.YearPillar(ref.FloorDiv(aEx, 12))
	m.monthDay = ref.MonthPillar(ref.FloorDiv(aDay, 12), ref.Mod(aDay, 12))
	m.monthEx = ref.MonthPillar(ref.FloorDiv(aEx, 12), ref.Mod(aEx, 12))
	m.day = ref.DayPillar(int(day))
	m.dayEx2 = m.day
	m.dayEx = m.day
	if t.H == 23 {
		m.dayEx = (m.day + 1) % 60
	}
	m.timeZhi = ref.HourBranch(t.H)
	m.timeGan = ref.HourStem(m.dayEx%10, m.timeZhi)
	return m
}

func cmpPillar(what string, wantIdx int, gotName string, gotGan, gotZhi int, gotGanS, gotZhiS string) error {
	want := ref.Pair(wantIdx)
	if gotName != want {
		return fmt.Errorf("%s = %s, model says %s", what, gotName, want)
	}
	if gotGan != wantIdx%10 || gotZhi != wantIdx%12 {
		return fmt.Errorf("%s index getters = (%d,%d), model says (%d,%d)", what, gotGan, gotZhi, wantIdx%10, wantIdx%12)
	}
	if gotGanS != ref.Gan[wantIdx%10] || gotZhiS != ref.Zhi[wantIdx%12] {
		return fmt.Errorf("%s stem/branch strings = %s/%s, model says %s/%s", what, gotGanS, gotZhiS, ref.Gan[wantIdx%10], ref.Zhi[wantIdx%12])
	}
	if LunarUtil.GetJiaZiIndex(gotName) != wantIdx {
		return fmt.Errorf("%s = %s is not pair %d of the 60 valid pairs", what, gotName, wantIdx)
	}
	return nil
}

func leadDay(t ref.DT) bool {
	l := gen.Solar(t).GetLunar()
	return l.GetYear() > t.Y
}

var pillars = ev.Register(&ev.P[momentCase]{
	Name: "pillars_at_moment",
	Rule: "civil moments generated with emphasis on Jie instants +-{0,1 s,1 min,1 h,1 day}, Lichun, lunar New Year +-3 days, odd-hour boundaries +-1 s, 23:00/23:59:59, and swept (every Jie of every sweep year x offsets, every day of hot years x slot boundaries); oracle: day pillar (JDN-11) mod 60 (Exact: next day's from 23:00; Exact2: same day), hour branch from the slot and stem by five-rats from the Exact day stem, year pillar (lunarYear-4) mod 60 / Lichun-day / Lichun-instant variants, month pillar = unbroken 60-cycle stepping at each Jie day (Exact: instant) = five-tigers from the Lichun-convention year in force; all string, stem, branch and index getters and EightChar under both sects agree (any other switch value means convention 2; asking for a fortune leaves switch and pillars alone); the thirteen hour objects of GetTimes() carry the day's hour pillars whatever the receiver's clock time; non-trivial: within 2 h of a Jie instant, on a Jie day, 23:xx, on a slot boundary second, or lunar year != civil year",
	Check: func(c momentCase) error {
		t := c.T
		l := gen.Solar(t).GetLunar()
		m := expect(t, l.GetYear())
		chk := []error{
			cmpPillar("year(NewYear)", m.yearNY, l.GetYearInGanZhi(), l.GetYearGanIndex(), l.GetYearZhiIndex(), l.GetYearGan(), l.GetYearZhi()),
			cmpPillar("year(LichunDay)", m.yearLC, l.GetYearInGanZhiByLiChun(), l.GetYearGanIndexByLiChun(), l.GetYearZhiIndexByLiChun(), l.GetYearGanByLiChun(), l.GetYearZhiByLiChun()),
			cmpPillar("year(LichunInstant)", m.yearEx, l.GetYearInGanZhiExact(), l.GetYearGanIndexExact(), l.GetYearZhiIndexExact(), l.GetYearGanExact(), l.GetYearZhiExact()),
			cmpPillar("month(JieDay)", m.monthDay, l.GetMonthInGanZhi(), l.GetMonthGanIndex(), l.GetMonthZhiIndex(), l.GetMonthGan(), l.GetMonthZhi()),
			cmpPillar("month(JieInstant)", m.monthEx, l.GetMonthInGanZhiExact(), l.GetMonthGanIndexExact(), l.GetMonthZhiIndexExact(), l.GetMonthGanExact(), l.GetMonthZhiExact()),
			cmpPillar("day", m.day, l.GetDayInGanZhi(), l.GetDayGanIndex(), l.GetDayZhiIndex(), l.GetDayGan(), l.GetDayZhi()),
			cmpPillar("day(Exact)", m.dayEx, l.GetDayInGanZhiExact(), l.GetDayGanIndexExact(), l.GetDayZhiIndexExact(), l.GetDayGanExact(), l.GetDayZhiExact()),
			cmpPillar("day(Exact2)", m.dayEx2, l.GetDayInGanZhiExact2(), l.GetDayGanIndexExact2(), l.GetDayZhiIndexExact2(), l.GetDayGanExact2(), l.GetDayZhiExact2()),
		}
		for _, e := range chk {
			if e != nil {
				return fmt.Errorf("%v (lunar %d/%d/%d): %v", t, l.GetYear(), l.GetMonth(), l.GetDay(), e)
			}
		}
		tp := ref.PairIndex(m.timeGan, m.timeZhi)
		if tp < 0 {
			return fmt.Errorf("%v: model hour pillar has mismatched parity (day stem %d, slot %d)", t, m.dayEx%10, m.timeZhi)
		}
		if e := cmpPillar("hour", tp, l.GetTimeInGanZhi(), l.GetTimeGanIndex(), l.GetTimeZhiIndex(), l.GetTimeGan(), l.GetTimeZhi()); e != nil {
			return fmt.Errorf("%v: %v", t, e)
		}
		// the exported hour-branch helper takes the time of day as text, with or without seconds
		for _, txt := range []string{fmt.Sprintf("%02d:%02d", t.H, t.Mi), fmt.Sprintf("%02d:%02d:%02d", t.H, t.Mi, t.S), gen.Solar(t).ToYmdHms()[11:]} {
			if g := LunarUtil.GetTimeZhiIndex(txt); g != m.timeZhi || LunarUtil.ConvertTime(txt) != ref.Zhi[m.timeZhi] {
				return fmt.Errorf("%v: LunarUtil.GetTimeZhiIndex(%q) = %d / ConvertTime = %s, the two-hour slot is %s (%d)", t, txt, g, LunarUtil.ConvertTime(txt), ref.Zhi[m.timeZhi], m.timeZhi)
			}
		}
		// eight characters under both sects
		ec := l.GetEightChar()
		for _, sect := range []int{1, 2} {
			ec.SetSect(sect)
			wd := m.dayEx
			if sect == 2 {
				wd = m.dayEx2
			}
			if ec.GetYear() != ref.Pair(m.yearEx) || ec.GetMonth() != ref.Pair(m.monthEx) || ec.GetDay() != ref.Pair(wd) || ec.GetTime() != ref.Pair(tp) {
				return fmt.Errorf("%v sect %d: EightChar = %s %s %s %s, model says %s %s %s %s", t, sect, ec.GetYear(), ec.GetMonth(), ec.GetDay(), ec.GetTime(),
					ref.Pair(m.yearEx), ref.Pair(m.monthEx), ref.Pair(wd), ref.Pair(tp))
			}
			if ec.GetDayGanIndex() != wd%10 || ec.GetDayZhiIndex() != wd%12 {
				return fmt.Errorf("%v sect %d: EightChar day index getters (%d,%d), want (%d,%d)", t, sect, ec.GetDayGanIndex(), ec.GetDayZhiIndex(), wd%10, wd%12)
			}
			if ec.GetYearGan()+ec.GetYearZhi() != ec.GetYear() || ec.GetMonthGan()+ec.GetMonthZhi() != ec.GetMonth() || ec.GetDayGan()+ec.GetDayZhi() != ec.GetDay() || ec.GetTimeGan()+ec.GetTimeZhi() != ec.GetTime() {
				return fmt.Errorf("%v sect %d: EightChar stem+branch getters do not compose to the pillars", t, sect)
			}
		}
		// the remaining clauses build many objects: a deterministic share of the cases, denser at 23:xx where the
		// conventions differ
		if h := (ref.JDN(t.Y, t.M, t.D)*7 + t.H*3 + t.Mi + t.S) % 32; !(h == 0 || (t.H == 23 && h%4 == 0)) {
			return nil
		}
		// any other value of the convention switch is documented to mean the late-rat convention (2)
		for _, odd := range []int{0, 3, -1} {
			ec.SetSect(odd)
			if ec.GetSect() != 2 || ec.GetDay() != ref.Pair(m.dayEx2) || ec.GetDayGan()+ec.GetDayZhi() != ec.GetDay() || ec.GetDayGanIndex() != m.dayEx2%10 || ec.GetDayZhiIndex() != m.dayEx2%12 {
				return fmt.Errorf("%v: after SetSect(%d) GetSect=%d day pillar %s (%s+%s, indices %d,%d); every value but 1 means convention 2, whose day pillar is %s", t, odd, ec.GetSect(), ec.GetDay(), ec.GetDayGan(), ec.GetDayZhi(), ec.GetDayGanIndex(), ec.GetDayZhiIndex(), ref.Pair(m.dayEx2))
			}
		}
		ec.SetSect(2)
		// asking for a fortune does not touch the convention switch or the pillars
		for _, g := range []int{1, 0} {
			for _, ys := range []int{1, 2} {
				ec.SetSect(ys) // the fortune school below is deliberately the other value
				_ = ec.GetYunBySect(g, 3-ys).GetStartSolar()
				wd := m.dayEx
				if ys == 2 {
					wd = m.dayEx2
				}
				if ec.GetSect() != ys || ec.GetDay() != ref.Pair(wd) {
					return fmt.Errorf("%v: day-boundary convention %d, then GetYunBySect(%d,%d): convention now %d, day pillar %s (model %s)", t, ys, g, 3-ys, ec.GetSect(), ec.GetDay(), ref.Pair(wd))
				}
			}
		}
		ec.SetSect(2)
		// the day's thirteen hour objects (00:00, 01:00, 03:00 … 23:00), whatever the receiver's own clock time
		for k, lt := range l.GetTimes() {
			ds := m.day
			if k == 12 {
				ds = m.day + 1 // the 23:00 entry belongs to the next day's rat hour
			}
			want := ref.PairIndex(ref.HourStem(ds%10, k%12), k%12)
			if lt.GetGanZhi() != ref.Pair(want) || lt.GetGanIndex() != want%10 || lt.GetZhiIndex() != want%12 {
				return fmt.Errorf("%v: GetTimes()[%d] = %s (indices %d,%d), five-rats from day %s gives %s", t, k, lt.GetGanZhi(), lt.GetGanIndex(), lt.GetZhiIndex(), ref.Pair(ds), ref.Pair(want))
			}
		}
		return nil
	},
	Class: func(c momentCase) ([]string, bool) {
		t := c.T
		l := gen.Solar(t).GetLunar()
		m := expect(t, l.GetYear())
		ls := []string{gen.Era(t.Y)}
		nt := false
		if m.jieInSlot {
			ls, nt = append(ls, "within2hOfJie"), true
		}
		if m.kDay != m.kEx {
			ls, nt = append(ls, "jieDayBeforeInstant"), true
		}
		if m.onJieDay {
			ls, nt = append(ls, "onJieDay"), true
		}
		if t.H == 23 {
			ls, nt = append(ls, "hour23"), true
		}
		if (t.H%2 == 1 && t.Mi == 0 && t.S == 0) || (t.H%2 == 0 && t.Mi == 59 && t.S == 59) {
			ls, nt = append(ls, "slotBoundary"), true
		}
		if l.GetYear() != t.Y {
			ls, nt = append(ls, "lunarYear!=civilYear"), true
			if l.GetYear() > t.Y {
				ls = append(ls, "lunarYearLeads")
			}
		}
		if m.yearNY != m.yearLC {
			ls, nt = append(ls, "betweenNewYearAndLichun"), true
		}
		return ls, nt
	},
	Known: func(c momentCase, err error) string {
		if leadDay(c.T) {
			return "C05/computeYear/lunar-year-leads-civil-year"
		}
		return ""
	},
	Require: []string{"within2hOfJie", "jieDayBeforeInstant", "onJieDay", "hour23", "slotBoundary", "lunarYear!=civilYear", "betweenNewYearAndLichun"},
})

// consecutive days: the day pillar advances by exactly one step (metamorphic, no anchor)
type dayCase struct{ J int }

var dayStep = ev.Register(&ev.P[dayCase]{
	Name: "day_pillar_steps_by_one",
	Rule: "pairs of consecutive civil days (enumerated over the sweep years incl. 1582-10-04 -> 15, generated elsewhere); oracle: the day pillar of the next day is the next of the 60 pairs, and at 23:30 the Exact variant already equals the next day's; non-trivial: the pair spans a month/year end or the 1582 switch",
	Check: func(c dayCase) error {
		y, mo, d := ref.FromJDN(c.J)
		y2, m2, d2 := ref.FromJDN(c.J + 1)
		a := calendar.NewSolar(y, mo, d, 23, 30, 0).GetLunar()
		b := calendar.NewSolar(y2, m2, d2, 0, 30, 0).GetLunar()
		ia, ib := LunarUtil.GetJiaZiIndex(a.GetDayInGanZhi()), LunarUtil.GetJiaZiIndex(b.GetDayInGanZhi())
		if ia < 0 || ib < 0 || (ia+1)%60 != ib {
			return fmt.Errorf("day pillar %s on %04d-%02d-%02d is followed by %s on %04d-%02d-%02d", a.GetDayInGanZhi(), y, mo, d, b.GetDayInGanZhi(), y2, m2, d2)
		}
		if a.GetDayInGanZhiExact() != b.GetDayInGanZhi() || a.GetDayInGanZhiExact2() != a.GetDayInGanZhi() || b.GetDayInGanZhiExact() != b.GetDayInGanZhi() {
			return fmt.Errorf("%04d-%02d-%02d 23:30: Exact=%s Exact2=%s plain=%s, next day plain=%s", y, mo, d, a.GetDayInGanZhiExact(), a.GetDayInGanZhiExact2(), a.GetDayInGanZhi(), b.GetDayInGanZhi())
		}
		if a.GetTimeZhi() != "子" || b.GetTimeZhi() != "子" || a.GetTimeInGanZhi() != b.GetTimeInGanZhi() {
			return fmt.Errorf("rat hour across midnight %04d-%02d-%02d: %s then %s", y, mo, d, a.GetTimeInGanZhi(), b.GetTimeInGanZhi())
		}
		return nil
	},
	Class: func(c dayCase) ([]string, bool) {
		y, mo, d := ref.FromJDN(c.J)
		var ls []string
		nt := false
		if d == ref.LastDayNumber(y, mo) {
			ls, nt = append(ls, "monthEnd"), true
		}
		if c.J == ref.JDNGregorianStart-1 {
			ls, nt = append(ls, "switch1582"), true
		}
		return ls, nt
	},
	Disjoint: true,
	Require:  []string{"monthEnd"},
})

func genMoment(t *rapid.T) ref.DT {
	k := rapid.IntRange(0, 9).Draw(t, "kind")
	switch {
	case k < 4: // a Jie instant of a generated year with a small offset
		y := gen.Year(t, 1, 9998)
		js := jie(y)
		x := js[rapid.IntRange(0, len(js)-1).Draw(t, "jie")]
		off := rapid.SampledFrom([]int64{0, 1, -1, 60, -60, 3599, -3600, 7200, -7200, 86400, -86400}).Draw(t, "off")
		r := ref.FromSec(x.Sec() + off)
		if r.Y >= 1 && r.Y <= 9998 {
			return r
		}
		return ref.DT{Y: y, M: 6, D: 15, H: 23}
	case k < 6: // lunar New Year neighbourhood at boundary clock times
		y := gen.Year(t, 1, 9998)
		j := gen.NewYearJDN(y) + rapid.IntRange(-3, 3).Draw(t, "nyDelta")
		yy, mm, dd := ref.FromJDN(j)
		if yy < 1 || yy > 9998 {
			yy, mm, dd = y, 6, 15
		}
		c := rapid.SampledFrom([][3]int{{0, 0, 0}, {22, 59, 59}, {23, 0, 0}, {23, 59, 59}, {12, 0, 0}}).Draw(t, "clk")
		return ref.DT{Y: yy, M: mm, D: dd, H: c[0], Mi: c[1], S: c[2]}
	case k < 7: // the early years' late December (lunar year may lead)
		y := rapid.IntRange(1, 40).Draw(t, "earlyYear")
		h, mi, s := gen.Time(t)
		return ref.DT{Y: y, M: 12, D: rapid.IntRange(20, 31).Draw(t, "decDay"), H: h, Mi: mi, S: s}
	default:
		return gen.Moment(t)
	}
}

func TestC05(t *testing.T) {
	ev.Assume("term instants of the civil year's table are taken from the library (their astronomical correctness is C03's subject)")
	years := gen.HotYears()
	if ev.Thorough() {
		years = nil
		for y := 1; y <= 9998; y++ {
			years = append(years, y)
		}
		pillars.Exhaustive("every Jie instant of every year 1..9998 x offsets {0,+-1 s,+-1 day}; every day of the hot years x 13 slot boundaries")
	}
	hot := map[int]bool{}
	for _, y := range gen.HotYears() {
		hot[y] = true
	}
	for _, y := range years {
		if !ev.Mine(y) {
			continue
		}
		for _, x := range jie(y) {
			for _, off := range []int64{0, -1, 1, -86400, 86400} {
				r := ref.FromSec(x.Sec() + off)
				if r.Y != y { // each instant is visited from its own civil year's table
					continue
				}
				pillars.Eval(momentCase{r})
			}
		}
		if hot[y] && (ev.Thorough() || y%7 == 0 || y <= 30 || y == 1582) {
			for j := ref.JDN(y, 1, 1); j <= ref.JDN(y, 12, 31); j++ {
				yy, mm, dd := ref.FromJDN(j)
				for _, c := range [][3]int{{0, 0, 0}, {0, 59, 59}, {1, 0, 0}, {12, 59, 59}, {13, 0, 0}, {22, 59, 59}, {23, 0, 0}, {23, 59, 59}} {
					pillars.Eval(momentCase{ref.DT{Y: yy, M: mm, D: dd, H: c[0], Mi: c[1], S: c[2]}})
				}
				if j < ref.JDNMax {
					dayStep.Eval(dayCase{j})
				}
			}
		}
	}
	if ev.Thorough() {
		dayStep.Exhaustive("every pair of consecutive days of the hot years")
	}
	// the 23:00 change-over second on a thin grid over ALL years (one day per month in quick, every day in
	// thorough): arithmetic that is only wrong in some far-away era shows here
	for y := 1; y <= 9998; y++ {
		if !ev.Mine(y) {
			continue
		}
		for m := 1; m <= 12; m++ {
			for d := 1; d <= 31; d++ {
				if !ref.ValidDate(y, m, d) || (!ev.Thorough() && d != 1+(y+m)%28) {
					continue
				}
				for _, c := range [][3]int{{22, 59, 59}, {23, 0, 0}, {0, 0, 0}} {
					pillars.Eval(momentCase{ref.DT{Y: y, M: m, D: d, H: c[0], Mi: c[1], S: c[2]}})
				}
			}
		}
	}
	// a dense window of moments asked again in scrambled order (same oracle, different predecessor)
	{
		start := ref.JDN(2019, 1, 1) + ev.Shard*230
		for _, perm := range ev.Shuffled(460, ev.Pick(2, 8), 5) {
			for _, k := range perm {
				yy, mm, dd := ref.FromJDN(start + k)
				pillars.Eval(momentCase{ref.DT{Y: yy, M: mm, D: dd, H: []int{22, 23, 0, 1}[k%4], Mi: 59, S: 59}})
			}
		}
	}
	pillars.Rapid(ev.Share(ev.Pick(24000, 600000)), func(t *rapid.T) momentCase { return momentCase{genMoment(t)} })
}
