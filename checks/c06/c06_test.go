//go:build verif

// C06 — lunar years are well-formed and month navigation is consistent.
package c06

import (
	"fmt"
	"testing"

	"github.com/6tail/lunar-go/calendar"
	"pgregory.net/rapid"
	"verif/internal/ev"
	"verif/internal/gen"
	"verif/internal/ref"
)

func TestMain(m *testing.M) { ev.Main(m, "C06") }

// the two month-renaming reforms the statement exempts from the well-formedness clauses
func reform(y int) bool { return (y >= 8 && y <= 23) || (y >= 236 && y <= 240) }

type mon struct {
	Y, M, DC int
	First    int // JDN of day 1
}

func monOf(m *calendar.LunarMonth) mon {
	return mon{m.GetYear(), m.GetMonth(), m.GetDayCount(), int(m.GetFirstJulianDay() + 0.5)}
}

func tableOf(y int) []mon {
	var out []mon
	for e := calendar.NewLunarYear(y).GetMonths().Front(); e != nil; e = e.Next() {
		out = append(out, monOf(e.Value.(*calendar.LunarMonth)))
	}
	return out
}

func tableOfYear(ly *calendar.LunarYear) []mon {
	var out []mon
	for e := ly.GetMonths().Front(); e != nil; e = e.Next() {
		out = append(out, monOf(e.Value.(*calendar.LunarMonth)))
	}
	return out
}

func inYear(y int) []mon {
	var out []mon
	for e := calendar.NewLunarYear(y).GetMonthsInYear().Front(); e != nil; e = e.Next() {
		out = append(out, monOf(e.Value.(*calendar.LunarMonth)))
	}
	return out
}

type yearCase struct{ Y int }

var wellFormed = ev.Register(&ev.P[yearCase]{
	Name: "year_wellformed",
	Rule: "every lunar year (hot years quick, all 1..9998 thorough); oracle: the 15-month table is contiguous (first(next) = first + dayCount) with 29/30-day months and fractional part .5 day numbers; GetMonthsInYear/GetMonth/GetLeapMonth/GetDayCount agree with the table; outside AD 8-23 and 236-240: 12 or 13 months numbered 1..12 in order with at most one leap directly after its namesake, year length in {353,354,355,383,384,385}, leap year <=> 13 months, the last day of the year is followed (Lunar.Next(1)) by 1/1 of the next year and is the only month end of the year reporting 除夕; non-trivial: leap year, override-list year or neighbour, borders a reform era, 1582, range ends",
	Check: func(c yearCase) error {
		y := c.Y
		ly := calendar.NewLunarYear(y)
		tb := tableOf(y)
		if len(tb) != 15 {
			return fmt.Errorf("year %d: table has %d months, want 15", y, len(tb))
		}
		for i, m := range tb {
			if i > 0 && tb[i-1].First+tb[i-1].DC != m.First {
				return fmt.Errorf("year %d: month %d/%d starts on JDN %d but the previous month %d/%d (JDN %d, %d days) ends the day before %d", y, m.Y, m.M, m.First, tb[i-1].Y, tb[i-1].M, tb[i-1].First, tb[i-1].DC, tb[i-1].First+tb[i-1].DC)
			}
			if !reform(m.Y) && m.DC != 29 && m.DC != 30 {
				return fmt.Errorf("year %d: month %d/%d has %d days", y, m.Y, m.M, m.DC)
			}
			if m.M == 0 || m.M > 12 || m.M < -12 {
				return fmt.Errorf("year %d: month number %d", y, m.M)
			}
		}
		// a year object reached by stepping is the year object of that year: table, pillar, and every other accessor
		for _, n := range []int{1, -1, 0, 10, -12, 25, 60, 61, -7 - y%5} {
			if y+n < 1 || y+n > 9998 {
				continue
			}
			// the table of the target year is taken BEFORE the step, from a cleared cache, and the source year is rebuilt
			// (a step may compute its result from the receiver and leave it in the year cache)
			calendar.VerifResetYearCache()
			wantTable := fmt.Sprint(tableOf(y + n))
			src := calendar.NewLunarYear(y)
			nx := src.Next(n)
			if nx.GetYear() != y+n || fmt.Sprint(tableOfYear(nx)) != wantTable {
				return fmt.Errorf("year %d: LunarYear.Next(%d) is not the table of year %d: %v vs %s", y, n, y+n, tableOfYear(nx), wantTable)
			}
			if after := fmt.Sprint(tableOf(y + n)); after != wantTable {
				return fmt.Errorf("year %d: after LunarYear.Next(%d) the table of year %d reads %s, before the step it read %s", y, n, y+n, after, wantTable)
			}
			direct := calendar.NewLunarYear(y + n)
			if nx.GetGanZhi() != direct.GetGanZhi() || nx.GetGanZhi() != ref.Pair(ref.YearPillar(y+n)) || nx.GetGanIndex() != direct.GetGanIndex() || nx.GetZhiIndex() != direct.GetZhiIndex() ||
				nx.GetNineStar().GetIndex() != direct.GetNineStar().GetIndex() || nx.GetPositionTaiSui() != direct.GetPositionTaiSui() || nx.GetZhiShui() != direct.GetZhiShui() || nx.GetLeapMonth() != direct.GetLeapMonth() || nx.GetDayCount() != direct.GetDayCount() {
				return fmt.Errorf("year %d: LunarYear.Next(%d) reports pillar %s star %d Tai Sui %s, the year object of %d reports %s / %d / %s (sexagenary count: %s)", y, n, nx.GetGanZhi(), nx.GetNineStar().GetIndex(), nx.GetPositionTaiSui(),
					y+n, direct.GetGanZhi(), direct.GetNineStar().GetIndex(), direct.GetPositionTaiSui(), ref.Pair(ref.YearPillar(y+n)))
			}
		}
		in := inYear(y)
		var own []mon
		for _, m := range tb {
			if m.Y == y {
				own = append(own, m)
			}
		}
		if len(own) != len(in) {
			return fmt.Errorf("year %d: GetMonthsInYear has %d months, the table has %d of year %d", y, len(in), len(own), y)
		}
		sum, leap := 0, 0
		for i, m := range in {
			if m != own[i] {
				return fmt.Errorf("year %d: GetMonthsInYear[%d] = %+v, table says %+v", y, i, m, own[i])
			}
			sum += m.DC
			g := ly.GetMonth(m.M)
			if g == nil || monOf(g) != m {
				return fmt.Errorf("year %d: GetMonth(%d) does not return the table entry %+v", y, m.M, m)
			}
			if h := calendar.NewLunarMonthFromYm(y, m.M); h == nil || monOf(h) != m {
				return fmt.Errorf("year %d: NewLunarMonthFromYm(%d,%d) does not return the table entry", y, y, m.M)
			}
			if g.IsLeap() != (m.M < 0) {
				return fmt.Errorf("year %d month %d: IsLeap=%v", y, m.M, g.IsLeap())
			}
			if m.M < 0 {
				if leap != 0 && !reform(y) {
					return fmt.Errorf("year %d has two leap months", y)
				}
				leap = -m.M
			}
		}
		if ly.GetDayCount() != sum {
			return fmt.Errorf("year %d: GetDayCount=%d, months sum to %d", y, ly.GetDayCount(), sum)
		}
		if ly.GetLeapMonth() != leap {
			return fmt.Errorf("year %d: GetLeapMonth=%d, table has leap %d", y, ly.GetLeapMonth(), leap)
		}
		for _, m := range []int{-12, -11, -10, -9, -8, -7, -6, -5, -4, -3, -2, -1, 0, 13, -13} {
			found := false
			for _, x := range in {
				if x.M == m {
					found = true
				}
			}
			if !found && ly.GetMonth(m) != nil {
				return fmt.Errorf("year %d: GetMonth(%d) returns a month that is not in the year", y, m)
			}
		}
		if reform(y) {
			return nil
		}
		if len(in) != 12 && len(in) != 13 {
			return fmt.Errorf("year %d has %d months", y, len(in))
		}
		if (leap != 0) != (len(in) == 13) {
			return fmt.Errorf("year %d has %d months but leap month %d", y, len(in), leap)
		}
		want := 1
		for i, m := range in {
			if m.M < 0 {
				if i == 0 || in[i-1].M != -m.M {
					return fmt.Errorf("year %d: leap month %d does not directly follow month %d", y, m.M, -m.M)
				}
				continue
			}
			if m.M != want {
				return fmt.Errorf("year %d: regular months out of order: got %d, want %d (months %v)", y, m.M, want, in)
			}
			want++
		}
		if want != 13 {
			return fmt.Errorf("year %d: regular months end at %d", y, want-1)
		}
		switch sum {
		case 353, 354, 355, 383, 384, 385:
		default:
			return fmt.Errorf("year %d has %d days", y, sum)
		}
		if (sum > 360) != (leap != 0) {
			return fmt.Errorf("year %d has %d days but leap month %d", y, sum, leap)
		}
		// New Year's Eve -> 1/1 of the next year
		if y < 9998 && !reform(y+1) {
			last := in[len(in)-1]
			eve := calendar.NewLunarFromYmd(y, last.M, last.DC)
			nx := eve.Next(1)
			if nx.GetYear() != y+1 || nx.GetMonth() != 1 || nx.GetDay() != 1 {
				return fmt.Errorf("year %d: the day after %d/%d/%d is %d/%d/%d", y, y, last.M, last.DC, nx.GetYear(), nx.GetMonth(), nx.GetDay())
			}
			// New Year's Eve is reported on the year's last day and on no other month end of the year
			for i, mm := range in {
				f := calendar.NewLunarFromYmd(y, mm.M, mm.DC).GetFestivals()
				has := false
				for e := f.Front(); e != nil; e = e.Next() {
					if e.Value.(string) == "除夕" {
						has = true
					}
				}
				if has != (i == len(in)-1) {
					return fmt.Errorf("year %d: 除夕 reported=%v on %d/%d/%d, which is the last day of month %d of %d", y, has, y, mm.M, mm.DC, i+1, len(in))
				}
			}
			ny := inYear(y + 1)
			if ny[0].M != 1 || ny[0].First != last.First+last.DC {
				return fmt.Errorf("year %d ends on JDN %d but year %d starts with month %d on JDN %d", y, last.First+last.DC-1, y+1, ny[0].M, ny[0].First)
			}
		}
		return nil
	},
	Class: func(c yearCase) ([]string, bool) {
		y := c.Y
		ls := []string{gen.Era(y)}
		nt := false
		if calendar.NewLunarYear(y).GetLeapMonth() != 0 {
			ls, nt = append(ls, "leapYear"), true
		}
		for _, o := range append(append([]int{}, calendar.LEAP_11...), calendar.LEAP_12...) {
			if y >= o-1 && y <= o+1 {
				ls, nt = append(ls, "overrideNeighbourhood"), true
				break
			}
		}
		if y == 7 || y == 24 || y == 235 || y == 241 || reform(y) {
			ls, nt = append(ls, "reformEraOrBorder"), true
		}
		if y <= 2 || y >= 9997 || y == 1582 {
			ls, nt = append(ls, "rangeEdge"), true
		}
		return ls, nt
	},
	Disjoint: true,
	Require:  []string{"leapYear", "overrideNeighbourhood", "reformEraOrBorder"},
})

var neighbours = ev.Register(&ev.P[yearCase]{
	Name: "neighbour_tables_agree",
	Rule: "every pair of consecutive year tables (no era excluded: the sentence carries no exclusion); oracle: they share at least two months, and every month they share — matched by first day and, separately, by (year, month) — has the same year, number, length and first day in both; distinct = year",
	Check: func(c yearCase) error {
		a, b := tableOf(c.Y), tableOf(c.Y+1)
		shared := 0
		for _, x := range a {
			for _, z := range b {
				if x.First == z.First {
					shared++
					if x != z {
						return fmt.Errorf("table(%d) has %+v but table(%d) has %+v for the month starting JDN %d", c.Y, x, c.Y+1, z, x.First)
					}
				} else if x.Y == z.Y && x.M == z.M {
					return fmt.Errorf("month %d/%d starts on JDN %d in table(%d) but on %d in table(%d)", x.Y, x.M, x.First, c.Y, z.First, c.Y+1)
				}
			}
		}
		if shared < 2 {
			return fmt.Errorf("tables %d and %d share only %d months", c.Y, c.Y+1, shared)
		}
		return nil
	},
	Class: func(c yearCase) ([]string, bool) { return []string{gen.Era(c.Y)}, true },
	Known: func(c yearCase, err error) string {
		if c.Y == 18 {
			return "C06/neighbour-tables/year18-vs-19"
		}
		return ""
	},
	Disjoint: true,
})

// ------------------------------------------------------------------------------------------
// month walks against a flat model list

type walkCase struct {
	Y, M, N int
}

func flat(lo, hi int) []mon {
	var out []mon
	for y := lo; y <= hi; y++ {
		out = append(out, inYear(y)...)
	}
	return out
}

// walks that pass through the one month on which tables 18 and 19 disagree (known finding) are classed apart
func touches18_19(c walkCase, target mon) bool {
	lo, hi := c.Y, target.Y
	if lo > hi {
		lo, hi = hi, lo
	}
	return lo <= 19 && hi >= 18
}

var walk = ev.Register(&ev.P[walkCase]{
	Name: "month_walk",
	Rule: "generated (year, one of its months, n in ±400) incl. leap months and walks across year tables; oracle: Next(n) is the entry n positions away in the flat list obtained by concatenating each year's own months (number, length, first day compared), Next(n) equals Next(±1) applied |n| times (|n|<=40), Next(1).Next(-1) and Next(-1).Next(1) return to the start, Next(0) is the month itself; non-trivial: start or target is a leap month or adjacent to one, or the walk crosses >=1 year table",
	Check: func(c walkCase) error {
		start := calendar.NewLunarMonthFromYm(c.Y, c.M)
		if start == nil {
			return fmt.Errorf("generator produced a month that does not exist: %d/%d", c.Y, c.M)
		}
		span := c.N/12 + 2
		if c.N < 0 {
			span = -c.N/12 + 2
		}
		lo, hi := c.Y-span, c.Y+span
		if lo < 1 {
			lo = 1
		}
		if hi > 9998 {
			hi = 9998
		}
		fl := flat(lo, hi)
		pos := -1
		for i, m := range fl {
			if m.Y == c.Y && m.M == c.M {
				pos = i
				break
			}
		}
		if pos < 0 {
			return fmt.Errorf("model: %d/%d not found in the flat list", c.Y, c.M)
		}
		if pos+c.N < 1 || pos+c.N >= len(fl)-1 {
			return nil // the walk leaves the supported range
		}
		want := fl[pos+c.N]
		got := start.Next(c.N)
		if got == nil {
			return fmt.Errorf("%d/%d Next(%d) = nil, model says %+v", c.Y, c.M, c.N, want)
		}
		if monOf(got) != want {
			return fmt.Errorf("%d/%d Next(%d) = %+v, model says %+v", c.Y, c.M, c.N, monOf(got), want)
		}
		// the same month taken from a neighbouring year's table (the tables overlap by a few months) steps alike
		for _, ty := range []int{c.Y + 1, c.Y - 1} {
			if ty < 1 || ty > 9998 {
				continue
			}
			for e := calendar.NewLunarYear(ty).GetMonths().Front(); e != nil; e = e.Next() {
				if alt := e.Value.(*calendar.LunarMonth); alt.GetYear() == c.Y && alt.GetMonth() == c.M {
					g2 := alt.Next(c.N)
					if g2 == nil || monOf(g2) != want {
						return fmt.Errorf("%d/%d taken from the table of year %d: Next(%d) = %v, from its own year's table it is %+v", c.Y, c.M, ty, c.N, g2, want)
					}
				}
			}
		}
		if c.N != 0 && c.N >= -40 && c.N <= 40 {
			step := 1
			if c.N < 0 {
				step = -1
			}
			cur := start
			for i := 0; i != c.N; i += step {
				cur = cur.Next(step)
				if cur == nil {
					return fmt.Errorf("%d/%d: Next(%d) applied %d times returns nil", c.Y, c.M, step, i/step+1)
				}
			}
			if monOf(cur) != monOf(got) {
				return fmt.Errorf("%d/%d: Next(%d) = %+v but Next(%d) applied %d times = %+v", c.Y, c.M, c.N, monOf(got), step, c.N/step, monOf(cur))
			}
		}
		for _, s := range []int{1, -1} {
			mid := start.Next(s)
			if mid == nil {
				return fmt.Errorf("%d/%d Next(%d) = nil", c.Y, c.M, s)
			}
			back := mid.Next(-s)
			if back == nil || monOf(back) != monOf(start) {
				return fmt.Errorf("%d/%d Next(%d).Next(%d) does not return to the start (via %+v)", c.Y, c.M, s, -s, monOf(mid))
			}
		}
		return nil
	},
	Class: func(c walkCase) ([]string, bool) {
		ls := []string{gen.Era(c.Y)}
		nt := false
		if c.M < 0 {
			ls, nt = append(ls, "fromLeap"), true
		}
		if l := calendar.NewLunarYear(c.Y).GetLeapMonth(); l != 0 && (c.M == l || c.M == l+1) {
			ls, nt = append(ls, "adjacentToLeap"), true
		}
		if c.N >= 12 || c.N <= -12 {
			ls, nt = append(ls, "crossesYearTable"), true
		}
		if c.N < 0 {
			ls = append(ls, "backward")
		}
		if c.N == 0 {
			ls = append(ls, "zero")
		}
		if reform(c.Y) {
			ls = append(ls, "reformEra")
		}
		return ls, nt
	},
	Known: func(c walkCase, err error) string {
		lo, hi := c.Y-1, c.Y+1
		if c.N > 0 {
			hi = c.Y + c.N/12 + 1
		} else {
			lo = c.Y + c.N/12 - 1
		}
		if lo <= 19 && hi >= 18 {
			return "C06/neighbour-tables/year18-vs-19"
		}
		return ""
	},
	Require: []string{"fromLeap", "adjacentToLeap", "crossesYearTable", "backward", "zero"},
})

// steps of any size: one long step equals two shorter ones (no model of 120 000 months is needed for that)
type longCase struct{ Y, M, N, A int }

var longSteps = ev.Register(&ev.P[longCase]{
	Name: "long_steps_compose",
	Rule: "a few month steps of the largest sizes that stay in range (backwards from the last lunar years to the first, up to 123 650 months; and 50 000..120 000 months in both directions between AD 300 and 9998); oracle: Next(n) is a month and equals Next(a).Next(n-a) (number, length, first day); non-trivial: every case",
	Check: func(c longCase) error {
		st := calendar.NewLunarMonthFromYm(c.Y, c.M)
		if st == nil {
			return nil
		}
		one := st.Next(c.N)
		leg := st.Next(c.A)
		if one == nil || leg == nil {
			return fmt.Errorf("%d/%d: Next(%d) = %v, Next(%d) = %v (a month in range was expected)", c.Y, c.M, c.N, one, c.A, leg)
		}
		two := leg.Next(c.N - c.A)
		if two == nil || monOf(one) != monOf(two) {
			return fmt.Errorf("%d/%d: Next(%d) = %+v but Next(%d).Next(%d) = %v", c.Y, c.M, c.N, monOf(one), c.A, c.N-c.A, two)
		}
		return nil
	},
	Class: func(c longCase) ([]string, bool) { return []string{"long"}, true },
})

func genWalk(t *rapid.T) walkCase {
	y := gen.Year(t, 2, 9990)
	in := inYear(y)
	i := rapid.IntRange(0, len(in)-1).Draw(t, "monthIdx")
	if rapid.IntRange(0, 3).Draw(t, "aimLeap") == 0 {
		for k, m := range in {
			if m.M < 0 {
				i = k - rapid.IntRange(0, 1).Draw(t, "beforeLeap")
				if rapid.Bool().Draw(t, "afterLeap") && k+1 < len(in) {
					i = k + 1
				}
			}
		}
	}
	n := 0
	switch rapid.IntRange(0, 5).Draw(t, "nClass") {
	case 0:
		n = 0
	case 1:
		n = rapid.IntRange(-3, 3).Draw(t, "n")
	case 2, 3:
		n = rapid.IntRange(-40, 40).Draw(t, "n")
	default:
		n = rapid.IntRange(-400, 400).Draw(t, "n")
	}
	return walkCase{y, in[i].M, n}
}

func TestC06(t *testing.T) {
	for i, c := range []longCase{{9998, 12, -123500, -60000}, {9990, 6, -123400, -100000}, {9998, 1, -100000, -1}, {300, 1, 119000, 60000}, {5000, 3, -58000, -29000}, {5000, 3, 61000, 1}} {
		if ev.Shard == i%ev.NShards || (ev.Thorough() && ev.Mine(i)) {
			longSteps.Eval(c)
		}
	}
	ev.Assume("the flat model list concatenates each year's own months as the library reports them (their astronomical correctness is C02's subject)")
	years := gen.HotYears()
	for _, o := range append(append([]int{}, calendar.LEAP_11...), calendar.LEAP_12...) {
		for d := -1; d <= 1; d++ {
			if o+d >= 1 && o+d <= 9998 {
				years = append(years, o+d)
			}
		}
	}
	if ev.Thorough() {
		years = nil
		for y := 1; y <= 9998; y++ {
			years = append(years, y)
		}
		wellFormed.Exhaustive("every lunar year 1..9998")
		neighbours.Exhaustive("every pair of consecutive years 1..9998")
	}
	seen := map[int]bool{}
	for _, y := range years {
		if seen[y] || !ev.Mine(y) {
			continue
		}
		seen[y] = true
		wellFormed.Eval(yearCase{y})
		if y < 9998 {
			neighbours.Eval(yearCase{y})
		}
	}
	// deterministic walks through the reform eras and the table-18/19 seam
	if ev.Shard == 0 {
		for y := 5; y <= 60; y++ {
			for _, n := range []int{-13, -1, 0, 1, 13} {
				walk.Eval(walkCase{y, 1, n})
			}
		}
	}
	walk.Rapid(ev.Share(ev.Pick(6000, 160000)), genWalk)
	_ = ref.JDNMin
}
