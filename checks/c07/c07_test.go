//go:build verif

// C07 — constructors accept exactly the dates that exist and never build an invalid one.
package c07

import (
	"fmt"
	"testing"
	"time"

	"github.com/6tail/lunar-go/calendar"
	"pgregory.net/rapid"
	"verif/internal/ev"
	"verif/internal/gen"
	"verif/internal/ref"
)

func TestMain(m *testing.M) { ev.Main(m, "C07") }

func accepted(f func()) (ok bool, msg string) {
	defer func() {
		if r := recover(); r != nil {
			ok, msg = false, fmt.Sprint(r)
		}
	}()
	f()
	return true, ""
}

// ------------------------------------------------------------------------------------------
// 1. civil constructors

type civCase struct{ Y, M, D, H, Mi, S int }

func oneOff(c civCase) bool { // exactly one coordinate out of range
	bad := 0
	if c.M < 1 || c.M > 12 {
		bad++
	}
	if c.H < 0 || c.H > 23 {
		bad++
	}
	if c.Mi < 0 || c.Mi > 59 {
		bad++
	}
	if c.S < 0 || c.S > 59 {
		bad++
	}
	if c.M >= 1 && c.M <= 12 && !ref.ValidDate(c.Y, c.M, c.D) {
		bad++
	}
	return bad == 1
}

var civilCtor = ev.Register(&ev.P[civCase]{
	Name: "civil_constructor_acceptance",
	Rule: "integer tuples in a box around validity (month -2..15, day -2..34, hour -2..26, minute/second -2..62), dense on 1582, century years and February, enumerated for the hot years' (month, day) grid and generated elsewhere; oracle: NewSolar / NewSolarFromYmd succeed <=> R-civil says the date-time exists, and a built object reports the numbers given (the date-only form reports 00:00:00; NewSolarFromDate/NewLunarFromDate of a time.Time holding exactly these fields, and NewLunarFromSolar, give the same date as NewSolar(...).GetLunar()); non-trivial: exactly one coordinate invalid, or a 1582-10 day, Feb 29, or day 30/31",
	Check: func(c civCase) error {
		want := ref.Valid(c.Y, c.M, c.D, c.H, c.Mi, c.S)
		var s *calendar.Solar
		got, msg := accepted(func() { s = calendar.NewSolar(c.Y, c.M, c.D, c.H, c.Mi, c.S) })
		if got != want {
			return fmt.Errorf("NewSolar%+v accepted=%v (%s), R-civil valid=%v", c, got, msg, want)
		}
		if got {
			if g := gen.FromSolar(s); g != (ref.DT{Y: c.Y, M: c.M, D: c.D, H: c.H, Mi: c.Mi, S: c.S}) {
				return fmt.Errorf("NewSolar%+v reports %v", c, g)
			}
		}
		// the time.Time forms: when the standard library holds exactly these fields (its calendar is proleptic
		// Gregorian, so only tuples it does not normalise qualify), the constructors take them over unchanged
		if got && c.Y >= 1 {
			// any sub-second part and any location: the constructors take the time's own calendar fields
			ns := []int{0, 1, 499999999, 500000000, 999999999, 600000000}[ref.Mod(c.D+c.S+c.Mi, 6)]
			loc := []*time.Location{time.UTC, time.Local, time.FixedZone("E8", 8*3600), time.FixedZone("W330", -12600)}[ref.Mod(c.D+c.H, 4)]
			if c.Y == 1 && c.M == 1 && c.D == 1 && c.H == 0 && c.Mi == 0 && c.S == 0 { // Go's zero time is the first instant of the range
				ns, loc = 0, time.UTC
			}
			tm := time.Date(c.Y, time.Month(c.M), c.D, c.H, c.Mi, c.S, ns, loc)
			if tm.Year() == c.Y && int(tm.Month()) == c.M && tm.Day() == c.D && tm.Hour() == c.H && tm.Minute() == c.Mi && tm.Second() == c.S {
				var sd *calendar.Solar
				var ld *calendar.Lunar
				ok, msg := accepted(func() { sd = calendar.NewSolarFromDate(tm); ld = calendar.NewLunarFromDate(tm) })
				if !ok {
					return fmt.Errorf("NewSolarFromDate/NewLunarFromDate(%v) panicked (%s) on a date-time NewSolar accepts", tm, msg)
				}
				if g := gen.FromSolar(sd); g != (ref.DT{Y: c.Y, M: c.M, D: c.D, H: c.H, Mi: c.Mi, S: c.S}) {
					return fmt.Errorf("NewSolarFromDate(%v) reports %v", tm, g)
				}
				l0, lf := s.GetLunar(), calendar.NewLunarFromSolar(s)
				for _, x := range []*calendar.Lunar{ld, lf} {
					if x.GetYear() != l0.GetYear() || x.GetMonth() != l0.GetMonth() || x.GetDay() != l0.GetDay() || x.GetHour() != c.H || x.GetMinute() != c.Mi || x.GetSecond() != c.S {
						return fmt.Errorf("NewLunarFromDate/NewLunarFromSolar for %v give lunar %d/%d/%d %d:%d:%d, Solar.GetLunar gives %d/%d/%d", tm, x.GetYear(), x.GetMonth(), x.GetDay(), x.GetHour(), x.GetMinute(), x.GetSecond(), l0.GetYear(), l0.GetMonth(), l0.GetDay())
					}
				}
			}
		}
		// arguments that equal a valid value modulo 2^8, 2^16 or 2^32 are as invalid as any other out-of-range number
		if got && (c.D+c.S)%4 == 0 {
			for _, k := range []int{1 << 8, 1 << 16, -(1 << 16), 1 << 32} {
				for i, tup := range [][6]int{{c.Y, c.M + k, c.D, c.H, c.Mi, c.S}, {c.Y, c.M, c.D + k, c.H, c.Mi, c.S}, {c.Y, c.M, c.D, c.H + k, c.Mi, c.S}, {c.Y, c.M, c.D, c.H, c.Mi + k, c.S}, {c.Y, c.M, c.D, c.H, c.Mi, c.S + k}} {
					if ok, _ := accepted(func() { calendar.NewSolar(tup[0], tup[1], tup[2], tup[3], tup[4], tup[5]) }); ok {
						return fmt.Errorf("NewSolar%v accepted: coordinate %d is a valid value plus %d", tup, i+1, k)
					}
				}
			}
		}
		if c.H == 0 && c.Mi == 0 && c.S == 0 {
			var s2 *calendar.Solar
			got2, _ := accepted(func() { s2 = calendar.NewSolarFromYmd(c.Y, c.M, c.D) })
			if got2 != ref.ValidDate(c.Y, c.M, c.D) {
				return fmt.Errorf("NewSolarFromYmd(%d,%d,%d) accepted=%v, R-civil valid=%v", c.Y, c.M, c.D, got2, !got2)
			}
			if got2 {
				if g := gen.FromSolar(s2); g != (ref.DT{Y: c.Y, M: c.M, D: c.D}) {
					return fmt.Errorf("NewSolarFromYmd(%d,%d,%d) reports %v (the date-only form is midnight of the day given)", c.Y, c.M, c.D, g)
				}
			}
		}
		return nil
	},
	Class: func(c civCase) ([]string, bool) {
		var ls []string
		nt := false
		if oneOff(c) {
			ls, nt = append(ls, "exactlyOneInvalid"), true
		}
		if c.Y == 1582 && c.M == 10 {
			ls, nt = append(ls, "oct1582"), true
			if c.D >= 4 && c.D <= 15 {
				ls = append(ls, "gapEdge")
			}
		}
		if c.M == 2 && c.D >= 28 && c.D <= 30 {
			ls, nt = append(ls, "febEnd"), true
		}
		if c.D == 30 || c.D == 31 || c.D == 32 {
			ls, nt = append(ls, "day30to32"), true
		}
		if ref.Valid(c.Y, c.M, c.D, c.H, c.Mi, c.S) {
			ls = append(ls, "valid")
		} else {
			ls = append(ls, "invalid")
		}
		return ls, nt
	},
	Require: []string{"exactlyOneInvalid", "gapEdge", "febEnd", "day30to32", "valid", "invalid"},
})

// ------------------------------------------------------------------------------------------
// 2. lunar constructors: acceptance set == image of the forward conversion

type lunarYearCase struct{ Y int }

type md struct{ M, D int }

// image of Solar.GetLunar() for lunar year y: every (month, day) some civil day maps to.
func image(y int) (map[md]bool, error) {
	img := map[md]bool{}
	lo := ref.JDN(y-1, 11, 1)
	if y == 1 {
		lo = ref.JDNMin
	}
	hi := ref.JDN(y+1, 3, 31)
	for j := lo; j <= hi; j++ {
		yy, mm, dd := ref.FromJDN(j)
		l := calendar.NewSolarFromYmd(yy, mm, dd).GetLunar()
		if l.GetYear() == y {
			k := md{l.GetMonth(), l.GetDay()}
			if img[k] {
				return nil, fmt.Errorf("two civil days map to lunar %d/%d/%d", y, k.M, k.D)
			}
			img[k] = true
		}
	}
	return img, nil
}

var lunarCtor = ev.Register(&ev.P[lunarYearCase]{
	Name: "lunar_constructor_acceptance",
	Rule: "for each lunar year (hot years + generated in quick; every year 1..9998 in thorough) the whole box month -13..14 x day -1..32 (1 288 tuples); oracle: NewLunar/NewLunarFromYmd/NewLunarTime/NewTao(y+2697)/NewFoto(y+544) succeed <=> (month, day) is in the image of Solar.GetLunar() over the civil days of Y-1-11-01..Y+1-03-31 reporting lunar year Y (forward path, independent of NewLunar's own checks); a negative month is accepted only where that leap month is in the image; an accepted object reports the numbers given; half of the tuples are asked right after a civil conversion in the same year (before/after lunar New Year, year end), which must not change acceptance; invalid hour/minute/second are rejected; non-trivial (counted per year): the year has a leap month, is in a reform era, or is an override-list neighbour; distinct = year",
	Check: func(c lunarYearCase) error {
		y := c.Y
		img, err := image(y)
		if err != nil {
			return err
		}
		reformEra := (y >= 8 && y <= 23) || (y >= 236 && y <= 240)
		if len(img) < 353 && !reformEra {
			return fmt.Errorf("lunar year %d: image has only %d days", y, len(img))
		}
		for m := -13; m <= 14; m++ {
			for d := -1; d <= 32; d++ {
				want := img[md{m, d}]
				var l *calendar.Lunar
				// acceptance may not depend on what was converted just before: half of the tuples are preceded by a civil
				// conversion in the same year's table (a day before lunar New Year, one after, the year's last days)
				if (m+d)%2 == 0 && y >= 2 && y <= 9997 {
					pm, pd := [][2]int{{1, 5}, {1, 20}, {2, 25}, {6, 15}, {12, 28}, {11, 30}}[ref.Mod(m*3+d, 6)][0], [][2]int{{1, 5}, {1, 20}, {2, 25}, {6, 15}, {12, 28}, {11, 30}}[ref.Mod(m*3+d, 6)][1]
					_ = calendar.NewSolarFromYmd(y, pm, pd).GetLunar()
				}
				got, msg := accepted(func() { l = calendar.NewLunar(y, m, d, 12, 30, 15) })
				if got != want {
					return fmt.Errorf("NewLunar(%d,%d,%d) accepted=%v (%s) but membership in the image of Solar.GetLunar() is %v", y, m, d, got, msg, want)
				}
				if got && (l.GetYear() != y || l.GetMonth() != m || l.GetDay() != d || l.GetHour() != 12 || l.GetMinute() != 30 || l.GetSecond() != 15) {
					return fmt.Errorf("NewLunar(%d,%d,%d,12,30,15) reports %d/%d/%d %d:%d:%d", y, m, d, l.GetYear(), l.GetMonth(), l.GetDay(), l.GetHour(), l.GetMinute(), l.GetSecond())
				}
				if got {
					s := l.GetSolar()
					if !ref.Valid(s.GetYear(), s.GetMonth(), s.GetDay(), s.GetHour(), s.GetMinute(), s.GetSecond()) {
						return fmt.Errorf("NewLunar(%d,%d,%d) carries the invalid civil date %s", y, m, d, s.ToYmdHms())
					}
				}
				if want && (m+d)%5 == 0 { // a valid triple plus a multiple of 2^8 / 2^16 / 2^32 in one coordinate is no date
					for _, k := range []int{1 << 8, 1 << 16, -(1 << 16), 1 << 32} {
						for _, tup := range [][3]int{{y, m + k, d}, {y, m, d + k}, {y, -m - k, d}} {
							if ok, _ := accepted(func() { calendar.NewLunar(tup[0], tup[1], tup[2], 0, 0, 0) }); ok {
								return fmt.Errorf("NewLunar(%d,%d,%d) accepted: a valid triple of year %d with %d added to one coordinate", tup[0], tup[1], tup[2], y, k)
							}
							if ok, _ := accepted(func() { calendar.NewTaoFromYmd(tup[0]+2697, tup[1], tup[2]) }); ok {
								return fmt.Errorf("NewTaoFromYmd(%d,%d,%d) accepted", tup[0]+2697, tup[1], tup[2])
							}
						}
					}
				}
				// the other constructors of the same triple (on a thinner grid: they share NewLunar)
				if (d+m)%3 == 0 || want {
					var lymd *calendar.Lunar
					g1, _ := accepted(func() { lymd = calendar.NewLunarFromYmd(y, m, d) })
					if g1 && (lymd.GetYear() != y || lymd.GetMonth() != m || lymd.GetDay() != d || lymd.GetHour() != 0 || lymd.GetMinute() != 0 || lymd.GetSecond() != 0 || lymd.GetSolar().GetHour() != 0 || lymd.GetSolar().GetSecond() != 0) {
						return fmt.Errorf("NewLunarFromYmd(%d,%d,%d) reports %d/%d/%d %d:%d:%d", y, m, d, lymd.GetYear(), lymd.GetMonth(), lymd.GetDay(), lymd.GetHour(), lymd.GetMinute(), lymd.GetSecond())
					}
					g2, _ := accepted(func() { calendar.NewLunarTime(y, m, d, 23, 59, 59) })
					var tao *calendar.Tao
					var foto *calendar.Foto
					g3, _ := accepted(func() { tao = calendar.NewTao(y+2697, m, d, 0, 0, 0) })
					g4, _ := accepted(func() { foto = calendar.NewFoto(y+544, m, d, 0, 0, 0) })
					var tymd *calendar.Tao
					var fymd *calendar.Foto
					g5, _ := accepted(func() { tymd = calendar.NewTaoFromYmd(y+2697, m, d) })
					g6, _ := accepted(func() { fymd = calendar.NewFotoFromYmd(y+544, m, d) })
					if g5 && g6 {
						for _, x := range []*calendar.Lunar{tymd.GetLunar(), fymd.GetLunar()} {
							if x.GetYear() != y || x.GetMonth() != m || x.GetDay() != d || x.GetHour() != 0 || x.GetMinute() != 0 || x.GetSecond() != 0 {
								return fmt.Errorf("NewTaoFromYmd/NewFotoFromYmd for lunar %d/%d/%d wrap %d/%d/%d %d:%d:%d", y, m, d, x.GetYear(), x.GetMonth(), x.GetDay(), x.GetHour(), x.GetMinute(), x.GetSecond())
							}
						}
					}
					if g1 != want || g2 != want || g3 != want || g4 != want || g5 != want || g6 != want {
						return fmt.Errorf("lunar %d/%d/%d (in image: %v): NewLunarFromYmd=%v NewLunarTime=%v NewTao=%v NewFoto=%v NewTaoFromYmd=%v NewFotoFromYmd=%v", y, m, d, want, g1, g2, g3, g4, g5, g6)
					}
					if want {
						if tl := tao.GetLunar(); tl.GetYear() != y || tl.GetMonth() != m || tl.GetDay() != d {
							return fmt.Errorf("NewTao(%d,%d,%d) wraps lunar %d/%d/%d", y+2697, m, d, tl.GetYear(), tl.GetMonth(), tl.GetDay())
						}
						if fl := foto.GetLunar(); fl.GetYear() != y || fl.GetMonth() != m || fl.GetDay() != d {
							return fmt.Errorf("NewFoto(%d,%d,%d) wraps lunar %d/%d/%d", y+544, m, d, fl.GetYear(), fl.GetMonth(), fl.GetDay())
						}
					}
				}
			}
		}
		// clock fields on one valid triple of the year
		var any md
		for k := range img {
			if k.M == 1 && k.D == 1 {
				any = k
			}
		}
		if any.M == 0 {
			for k := range img {
				any = k
				break
			}
		}
		for _, clk := range [][3]int{{24, 0, 0}, {-1, 0, 0}, {0, 60, 0}, {0, -1, 0}, {0, 0, 60}, {0, 0, -1}, {23, 59, 59}, {0, 0, 0}} {
			want := clk[0] >= 0 && clk[0] <= 23 && clk[1] >= 0 && clk[1] <= 59 && clk[2] >= 0 && clk[2] <= 59
			g1, _ := accepted(func() { calendar.NewLunar(y, any.M, any.D, clk[0], clk[1], clk[2]) })
			g2, _ := accepted(func() { calendar.NewTao(y+2697, any.M, any.D, clk[0], clk[1], clk[2]) })
			g3, _ := accepted(func() { calendar.NewFoto(y+544, any.M, any.D, clk[0], clk[1], clk[2]) })
			g4, _ := accepted(func() { calendar.NewLunarTime(y, any.M, any.D, clk[0], clk[1], clk[2]) })
			if g1 != want || g2 != want || g3 != want || g4 != want {
				return fmt.Errorf("lunar %d/%d/%d with clock %v: NewLunar=%v NewTao=%v NewFoto=%v NewLunarTime=%v, want %v", y, any.M, any.D, clk, g1, g2, g3, g4, want)
			}
		}
		return nil
	},
	Class: func(c lunarYearCase) ([]string, bool) {
		y := c.Y
		ls := []string{gen.Era(y)}
		nt := false
		if calendar.NewLunarYear(y).GetLeapMonth() != 0 {
			ls, nt = append(ls, "leapYear"), true
		}
		if (y >= 8 && y <= 23) || (y >= 236 && y <= 240) {
			ls, nt = append(ls, "reformEra"), true
		}
		for _, o := range append(append([]int{}, calendar.LEAP_11...), calendar.LEAP_12...) {
			if y >= o-1 && y <= o+1 {
				ls, nt = append(ls, "overrideNeighbourhood"), true
				break
			}
		}
		return ls, nt
	},
	Require: []string{"leapYear", "reformEra"},
})

// ------------------------------------------------------------------------------------------
// 3. chains of public stepping / conversion calls keep every object valid

func checkSolar(what string, s *calendar.Solar) error {
	if s == nil {
		return fmt.Errorf("%s returned nil", what)
	}
	if !ref.Valid(s.GetYear(), s.GetMonth(), s.GetDay(), s.GetHour(), s.GetMinute(), s.GetSecond()) {
		return fmt.Errorf("%s produced the invalid civil date-time %04d-%02d-%02d %02d:%02d:%02d", what, s.GetYear(), s.GetMonth(), s.GetDay(), s.GetHour(), s.GetMinute(), s.GetSecond())
	}
	return nil
}

func checkLunar(what string, l *calendar.Lunar) error {
	if l == nil {
		return fmt.Errorf("%s returned nil", what)
	}
	lm := calendar.NewLunarMonthFromYm(l.GetYear(), l.GetMonth())
	if lm == nil {
		return fmt.Errorf("%s produced lunar %d/%d/%d whose month does not exist", what, l.GetYear(), l.GetMonth(), l.GetDay())
	}
	if l.GetDay() < 1 || l.GetDay() > lm.GetDayCount() {
		return fmt.Errorf("%s produced lunar %d/%d/%d but the month has %d days", what, l.GetYear(), l.GetMonth(), l.GetDay(), lm.GetDayCount())
	}
	if l.GetHour() < 0 || l.GetHour() > 23 || l.GetMinute() < 0 || l.GetMinute() > 59 || l.GetSecond() < 0 || l.GetSecond() > 59 {
		return fmt.Errorf("%s produced lunar clock %d:%d:%d", what, l.GetHour(), l.GetMinute(), l.GetSecond())
	}
	return checkSolar(what+".GetSolar()", l.GetSolar())
}

type chainCase struct {
	Start ref.DT
	Ops   []op
}

type op struct {
	Kind string
	N    int
}

var opKinds = []string{"NextDay", "NextHour", "NextMonth", "NextYear", "LunarRoundTrip", "LunarNext", "JulianDay", "WeekFirstDay", "WeekDays", "MonthDays", "Next(n,false)", "Workday", "TermSolar", "LunarMonthFirst"}

var chains = ev.Register(&ev.P[chainCase]{
	Name: "chains_stay_valid",
	Rule: "a generated valid start date-time and a generated sequence (1..25) of public stepping/conversion calls (NextDay, NextHour, NextMonth, NextYear, Next, workday Next, GetLunar/GetSolar, Lunar.Next, NewSolarFromJulianDay(GetJulianDay()+delta), SolarWeek first day/days, SolarMonth days, term-table entries, lunar month first day); steps whose model result would leave years 2..9997 are skipped; oracle: after every step the civil fields are R-civil-valid and every lunar object has an existing month and a day within its count; non-trivial: the chain touches 1582-09..11, a month end (day >= 28), or contains >= 3 different kinds of step",
	Check: func(c chainCase) error {
		cur := gen.Solar(c.Start)
		for i, o := range c.Ops {
			t := gen.FromSolar(cur)
			what := fmt.Sprintf("step %d %s(%d) from %v", i, o.Kind, o.N, t)
			var nx *calendar.Solar
			inRange := func(y int) bool { return y >= 2 && y <= 9997 }
			switch o.Kind {
			case "NextDay", "Next(n,false)", "LunarNext":
				w := t.AddDays(o.N)
				if !inRange(w.Y) {
					continue
				}
				if o.Kind == "NextDay" {
					nx = cur.NextDay(o.N)
				} else if o.Kind == "Next(n,false)" {
					nx = cur.Next(o.N, false)
				} else {
					l := cur.GetLunar().Next(o.N)
					if err := checkLunar(what, l); err != nil {
						return err
					}
					nx = l.GetSolar()
				}
			case "NextHour":
				w := ref.FromSec(t.Sec() + int64(o.N)*3600)
				if !inRange(w.Y) {
					continue
				}
				nx = cur.NextHour(o.N)
			case "NextMonth":
				w := t.AddMonths(o.N % 600)
				if !inRange(w.Y) {
					continue
				}
				nx = cur.NextMonth(o.N % 600)
			case "NextYear":
				n := o.N % 50
				if !inRange(t.Y + n) {
					continue
				}
				nx = cur.NextYear(n)
			case "LunarRoundTrip":
				l := cur.GetLunar()
				if err := checkLunar(what, l); err != nil {
					return err
				}
				l2 := calendar.NewLunar(l.GetYear(), l.GetMonth(), l.GetDay(), l.GetHour(), l.GetMinute(), l.GetSecond())
				if err := checkLunar(what+" rebuilt", l2); err != nil {
					return err
				}
				nx = l2.GetSolar()
			case "JulianDay":
				delta := float64(o.N%499) / 1000 / 86400 // within +-0.499 s
				nx = calendar.NewSolarFromJulianDay(cur.GetJulianDay() + delta)
			case "WeekFirstDay":
				nx = calendar.NewSolarWeekFromYmd(t.Y, t.M, t.D, ref.Mod(o.N, 7)).GetFirstDay()
			case "WeekDays":
				l := calendar.NewSolarWeekFromYmd(t.Y, t.M, t.D, ref.Mod(o.N, 7)).GetDays()
				k := 0
				for e := l.Front(); e != nil; e = e.Next() {
					s := e.Value.(*calendar.Solar)
					if err := checkSolar(what, s); err != nil {
						return err
					}
					if k == ref.Mod(o.N, 5) {
						nx = s
					}
					k++
				}
			case "MonthDays":
				l := calendar.NewSolarMonthFromYm(t.Y, t.M).GetDays()
				k := 0
				for e := l.Front(); e != nil; e = e.Next() {
					s := e.Value.(*calendar.Solar)
					if err := checkSolar(what, s); err != nil {
						return err
					}
					if k == ref.Mod(o.N, 20) {
						nx = s
					}
					k++
				}
			case "Workday":
				n := o.N % 15
				if !inRange(t.AddDays(3 * n).Y) {
					continue
				}
				nx = cur.Next(n, true)
			case "TermSolar":
				l := cur.GetLunar()
				tb := l.GetJieQiTable()
				name := calendar.JIE_QI_IN_USE[1+ref.Mod(o.N, 24)]
				nx = tb[name]
			case "LunarMonthFirst":
				l := cur.GetLunar()
				lm := calendar.NewLunarMonthFromYm(l.GetYear(), l.GetMonth())
				if lm == nil {
					return fmt.Errorf("%s: lunar month %d/%d does not exist", what, l.GetYear(), l.GetMonth())
				}
				mm := lm.Next(o.N % 30)
				if mm == nil || !inRange(mm.GetYear()) {
					continue
				}
				nx = calendar.NewSolarFromJulianDay(mm.GetFirstJulianDay())
				l2 := nx.GetLunar()
				if err := checkLunar(what, l2); err != nil {
					return err
				}
			}
			if err := checkSolar(what, nx); err != nil {
				return err
			}
			if !inRange(nx.GetYear()) {
				continue
			}
			cur = nx
		}
		return checkLunar("final GetLunar()", cur.GetLunar())
	},
	Class: func(c chainCase) ([]string, bool) {
		var ls []string
		nt := false
		kinds := map[string]bool{}
		for _, o := range c.Ops {
			kinds[o.Kind] = true
		}
		if len(kinds) >= 3 {
			ls, nt = append(ls, "threeKinds"), true
		}
		if c.Start.Y == 1582 && c.Start.M >= 9 && c.Start.M <= 11 {
			ls, nt = append(ls, "starts1582"), true
		}
		if c.Start.D >= 28 {
			ls, nt = append(ls, "startsMonthEnd"), true
		}
		for k := range kinds {
			ls = append(ls, "op:"+k)
		}
		return ls, nt
	},
	Require: []string{"threeKinds", "starts1582", "startsMonthEnd", "op:NextMonth", "op:JulianDay", "op:LunarNext", "op:Workday"},
})

// ------------------------------------------------------------------------------------------

func genCiv(t *rapid.T) civCase {
	y := gen.Year(t, 1, 9998)
	if rapid.IntRange(0, 3).Draw(t, "yBias") == 0 {
		y = rapid.SampledFrom([]int{1582, 1600, 1700, 1900, 2000, 2100, 4, 100, 1500, 1581, 1583}).Draw(t, "specialYear")
	}
	c := civCase{Y: y}
	c.M = rapid.IntRange(-2, 15).Draw(t, "m")
	if rapid.IntRange(0, 2).Draw(t, "mValid") > 0 {
		c.M = rapid.IntRange(1, 12).Draw(t, "mv")
	}
	if y == 1582 && rapid.Bool().Draw(t, "oct") {
		c.M = 10
	}
	c.D = rapid.IntRange(-2, 34).Draw(t, "d")
	if rapid.IntRange(0, 2).Draw(t, "dEdge") == 0 {
		c.D = rapid.SampledFrom([]int{0, 1, 4, 5, 14, 15, 28, 29, 30, 31, 32}).Draw(t, "de")
	}
	if rapid.IntRange(0, 3).Draw(t, "clockValid") > 0 {
		c.H, c.Mi, c.S = gen.Time(t)
	} else {
		c.H = rapid.IntRange(-2, 26).Draw(t, "h")
		c.Mi = rapid.IntRange(-2, 62).Draw(t, "mi")
		c.S = rapid.IntRange(-2, 62).Draw(t, "s")
		if rapid.Bool().Draw(t, "onlyOne") {
			switch rapid.IntRange(0, 2).Draw(t, "which") {
			case 0:
				c.Mi, c.S = 0, 0
			case 1:
				c.H, c.S = 0, 0
			default:
				c.H, c.Mi = 0, 0
			}
		}
	}
	return c
}

func genChain(t *rapid.T) chainCase {
	var start ref.DT
	if rapid.IntRange(0, 4).Draw(t, "seam") == 0 {
		j := ref.JDN(1582, 9, 1) + rapid.IntRange(0, 90).Draw(t, "seamDay")
		y, m, d := ref.FromJDN(j)
		h, mi, s := gen.Time(t)
		start = ref.DT{Y: y, M: m, D: d, H: h, Mi: mi, S: s}
	} else {
		start = gen.MomentIn(t, 3, 9996)
	}
	n := rapid.IntRange(1, 25).Draw(t, "len")
	ops := make([]op, n)
	for i := range ops {
		k := rapid.SampledFrom(opKinds).Draw(t, "kind")
		ops[i] = op{k, gen.Step(t, 40000)}
	}
	return chainCase{start, ops}
}

func TestC07(t *testing.T) {
	ev.Assume("the image of Solar.GetLunar() over civil days defines which lunar dates exist (forward conversion is C01/C02's subject)")
	// civil grid on special years
	special := []int{1, 4, 100, 1500, 1581, 1582, 1583, 1600, 1700, 1900, 2000, 2023, 2024, 2100, 9998}
	for i, y := range special {
		if !ev.Mine(i) {
			continue
		}
		for m := -1; m <= 14; m++ {
			for d := -1; d <= 33; d++ {
				civilCtor.Eval(civCase{Y: y, M: m, D: d})
				civilCtor.Eval(civCase{Y: y, M: m, D: d, H: 23, Mi: 59, S: 59})
			}
		}
		for _, clk := range [][3]int{{24, 0, 0}, {-1, 0, 0}, {0, 60, 0}, {0, -1, 0}, {0, 0, 60}, {0, 0, -1}} {
			civilCtor.Eval(civCase{Y: y, M: 6, D: 15, H: clk[0], Mi: clk[1], S: clk[2]})
		}
	}
	civilCtor.Rapid(ev.Share(ev.Pick(40000, 800000)), genCiv)

	years := gen.HotYears()
	if ev.Thorough() {
		years = nil
		for y := 1; y <= 9998; y++ {
			years = append(years, y)
		}
		lunarCtor.Exhaustive("every lunar year 1..9998 x month -13..14 x day -1..32")
	} else {
		var thin []int
		for _, y := range years {
			if y <= 30 || (y >= 234 && y <= 242) || y == 1582 || y%6 == 0 || y >= 9996 {
				thin = append(thin, y)
			}
		}
		years = thin
		for _, o := range calendar.LEAP_11 {
			years = append(years, o, o+1)
		}
	}
	for _, y := range years {
		if ev.Mine(y) {
			lunarCtor.Eval(lunarYearCase{y})
		}
	}
	lunarCtor.Rapid(ev.Share(ev.Pick(160, 1600)), func(t *rapid.T) lunarYearCase { return lunarYearCase{gen.Year(t, 1, 9998)} })
	// one slice of the box on EVERY day of 1960-2035 (a dense modern window, where date-specific special cases would
	// live): the time tuples just outside the range
	for j := ref.JDN(1960, 1, 1); j <= ref.JDN(2035, 12, 31); j++ {
		if !ev.Mine(j) {
			continue
		}
		y, m, d := ref.FromJDN(j)
		for _, tm := range [][3]int{{23, 59, 60}, {24, 0, 0}, {23, 60, 0}, {0, 0, -1}} {
			civilCtor.Eval(civCase{y, m, d, tm[0], tm[1], tm[2]})
		}
	}
	// short lunar steps from every day of the months of unusual length (the 28-day twelfth month of lunar 236, civil
	// 0237-01-15..02-11, is the only one below 29 days; reform-era neighbours included)
	if ev.Shard == 0 {
		for j := ref.JDN(237, 1, 10); j <= ref.JDN(237, 2, 15); j++ {
			y, m, d := ref.FromJDN(j)
			for _, n := range []int{1, 2, 3, -1, 27, 28, 29} {
				chains.Eval(chainCase{Start: ref.DT{Y: y, M: m, D: d, H: 12}, Ops: []op{{Kind: "LunarNext", N: n}, {Kind: "LunarRoundTrip"}, {Kind: "LunarNext", N: -n}}})
			}
		}
	}
	chains.Rapid(ev.Share(ev.Pick(8000, 200000)), genChain)
}

// native fuzz target (thorough tier, additive): civil constructor acceptance on arbitrary integer tuples
func FuzzNewSolar(f *testing.F) {
	for _, x := range [][6]int{{1582, 10, 4, 0, 0, 0}, {1582, 10, 5, 0, 0, 0}, {1582, 10, 14, 23, 59, 59}, {1582, 10, 15, 0, 0, 0}, {2000, 2, 29, 0, 0, 0}, {1900, 2, 29, 0, 0, 0}, {1500, 2, 29, 0, 0, 0}, {2023, 13, 1, 0, 0, 0}, {2023, 4, 31, 24, 60, 60}, {1, 1, 1, -1, -1, -1}, {9998, 12, 31, 23, 59, 59}} {
		f.Add(x[0], x[1], x[2], x[3], x[4], x[5])
	}
	f.Fuzz(func(t *testing.T, y, m, d, h, mi, s int) {
		if y < 1 || y > 9999 {
			return
		}
		ev.FuzzCheck(t, civilCtor, civCase{y, m, d, h, mi, s})
	})
}
