//go:build verif

// C08 — every accessor is total on valid dates and returns well-formed values.
package c08

import (
	"container/list"
	"fmt"
	"os"
	"os/exec"
	"reflect"
	"regexp"
	"sort"
	"strings"
	"testing"

	"github.com/6tail/lunar-go/FotoUtil"
	"github.com/6tail/lunar-go/HolidayUtil"
	"github.com/6tail/lunar-go/LunarUtil"
	"github.com/6tail/lunar-go/SolarUtil"
	"github.com/6tail/lunar-go/calendar"
	"pgregory.net/rapid"
	"verif/internal/dig"
	"verif/internal/ev"
	"verif/internal/gen"
	"verif/internal/ref"
)

func TestMain(m *testing.M) {
	if ord := os.Getenv("VERIF_C08_DECODERS"); ord != "" {
		os.Exit(decoderChild(ord))
	}
	ev.Main(m, "C08")
}

// decoderChild: a fresh process that asks every table decoder for its whole domain (valid names, in the given order)
// and prints one line per question. Order "asc" walks the domain upwards, "desc" downwards, "invalidFirst" asks
// every decoder with names that are not pillars before walking upwards, "crossFirst" asks the hour decoders with day /
// hour pillars that cannot occur together first.
func decoderChild(order string) int {
	jz := LunarUtil.JIA_ZI
	type q struct{ fn, a, b int }
	var qs []q
	for a := 0; a < 60; a++ {
		for b := 0; b < 60; b++ {
			qs = append(qs, q{0, a, b}, q{1, a, b})
		}
	}
	for _, mm := range []int{1, 2, 3, 4, 5, 6, 7, 8, 9, 10, 11, 12, -1, -2, -3, -4, -5, -6, -7, -8, -9, -10, -11, -12} {
		for b := 0; b < 60; b++ {
			qs = append(qs, q{2, mm, b})
		}
	}
	ask := func(x q) string {
		switch x.fn {
		case 0:
			return fmt.Sprintf("day %s %s yi=%v ji=%v", jz[x.a], jz[x.b], listOf(LunarUtil.GetDayYi(jz[x.a], jz[x.b])), listOf(LunarUtil.GetDayJi(jz[x.a], jz[x.b])))
		case 1:
			return fmt.Sprintf("time %s %s yi=%v ji=%v", jz[x.a], jz[x.b], listOf(LunarUtil.GetTimeYi(jz[x.a], jz[x.b])), listOf(LunarUtil.GetTimeJi(jz[x.a], jz[x.b])))
		}
		return fmt.Sprintf("shen %d %s js=%v xs=%v", x.a, jz[x.b], listOf(LunarUtil.GetDayJiShen(x.a, jz[x.b])), listOf(LunarUtil.GetDayXiongSha(x.a, jz[x.b])))
	}
	safe := func(f func()) {
		defer func() { _ = recover() }()
		f()
	}
	switch order {
	case "desc":
		for i, j := 0, len(qs)-1; i < j; i, j = i+1, j-1 {
			qs[i], qs[j] = qs[j], qs[i]
		}
	case "invalidFirst":
		for _, bad := range []string{"", "已巳", "XX", "甲"} {
			for b := 0; b < 60; b += 7 {
				safe(func() {
					LunarUtil.GetDayYi(bad, jz[b])
					LunarUtil.GetDayJi(jz[b], bad)
					LunarUtil.GetTimeYi(bad, jz[b])
					LunarUtil.GetTimeJi(jz[b], bad)
				})
				safe(func() { LunarUtil.GetDayJiShen(0, jz[b]); LunarUtil.GetDayXiongSha(13, bad) })
			}
		}
	case "validFirst": // the pairs a moment can have (hour stem by five-rats from the day stem) before all the others
		var first, rest []q
		for _, x := range qs {
			if x.fn == 1 && (x.a%10%5*2+x.b%12)%10 == x.b%10 {
				first = append(first, x)
			} else {
				rest = append(rest, x)
			}
		}
		qs = append(first, rest...)
	}
	out := make([]string, 0, len(qs))
	for _, x := range qs {
		out = append(out, ask(x))
	}
	sort.Strings(out)
	for _, l := range out {
		fmt.Println("D " + l)
	}
	return 0
}

// ------------------------------------------------------------------------------------------
// vocabularies (built from the exported tables at run time)

func set(xs ...[]string) map[string]bool {
	m := map[string]bool{}
	for _, x := range xs {
		for _, s := range x {
			if s != "" {
				m[s] = true
			}
		}
	}
	return m
}
func vals(m map[string]string) []string {
	var out []string
	for _, v := range m {
		out = append(out, v)
	}
	return out
}
func keys(m map[string]string) []string {
	var out []string
	for k := range m {
		out = append(out, k)
	}
	return out
}

var (
	vGan      = set(LunarUtil.GAN)
	vZhi      = set(LunarUtil.ZHI)
	vJiaZi    = set(LunarUtil.JIA_ZI)
	vAnimal12 = set(LunarUtil.SHENG_XIAO)
	vXun      = set(LunarUtil.XUN)
	vXunKong  = set(LunarUtil.XUN_KONG)
	vNaYin    = set(vals(LunarUtil.NAYIN))
	vPos      = set(keys(LunarUtil.POSITION_DESC))
	vPosDesc  = set(vals(LunarUtil.POSITION_DESC))
	vXiu      = set(vals(LunarUtil.XIU))
	vXiuLuck  = set(vals(LunarUtil.XIU_LUCK))
	vXiuSong  = set(vals(LunarUtil.XIU_SONG))
	vZheng    = set(vals(LunarUtil.ZHENG))
	vAnimal28 = set(vals(LunarUtil.ANIMAL))
	vGong     = set(vals(LunarUtil.GONG))
	vShou     = set(vals(LunarUtil.SHOU))
	vZhiXing  = set(LunarUtil.ZHI_XING)
	vTianShen = set(LunarUtil.TIAN_SHEN)
	vTSType   = set(vals(LunarUtil.TIAN_SHEN_TYPE))
	vTSLuck   = set(vals(LunarUtil.TIAN_SHEN_TYPE_LUCK))
	vPengGan  = set(LunarUtil.PENGZU_GAN)
	vPengZhi  = set(LunarUtil.PENGZU_ZHI)
	vSha      = set(vals(LunarUtil.SHA))
	vLiuYao   = set(LunarUtil.LIU_YAO)
	vYueXiang = set(LunarUtil.YUE_XIANG)
	vSeason   = set(LunarUtil.SEASON)
	vWuHou    = set(LunarUtil.WU_HOU)
	vTaiDay   = set(LunarUtil.POSITION_TAI_DAY)
	vTaiMonth = set(LunarUtil.POSITION_TAI_MONTH)
	vShiShen  = set(vals(LunarUtil.SHI_SHEN))
	vDiShi    = set(calendar.CHANG_SHENG)
	vLu       = set(vals(LunarUtil.LU))
	vXingZuo  = set(SolarUtil.XINGZUO)
	vWeek     = set(SolarUtil.WEEK)
	vYiJi     = set(LunarUtil.VerifYiJi(), []string{"无"})
	vShenSha  = set(LunarUtil.VerifShenSha())
	vXiu27    = set(FotoUtil.XIU_27)
	vMonthCN  = set(LunarUtil.MONTH)
	vDayCN    = set(LunarUtil.DAY)
	vTerm     = set(calendar.JIE_QI)
	vWuXing2  = func() map[string]bool {
		m := map[string]bool{}
		for _, a := range []string{"金", "木", "水", "火", "土"} {
			for _, b := range []string{"金", "木", "水", "火", "土"} {
				m[a+b] = true
			}
		}
		return m
	}()
	vShuJiu = func() map[string]bool {
		m := map[string]bool{}
		for i := 1; i <= 9; i++ {
			m[LunarUtil.NUMBER[i]+"九"] = true
		}
		return m
	}()
	vHou = func() map[string]bool {
		m := map[string]bool{}
		for _, t := range calendar.JIE_QI {
			for _, h := range LunarUtil.HOU {
				m[t+" "+h] = true
			}
		}
		return m
	}()
)

type rule struct {
	re    *regexp.Regexp
	vocab map[string]bool
	name  string
}

func r(pat string, v map[string]bool, name string) rule {
	return rule{regexp.MustCompile("^(?:" + pat + ")$"), v, name}
}

// string accessors -> vocabulary, matched on "Type.Method". First match wins.
var strRules = []rule{
	r(`Lunar\.Get(Year|Month|Day|Time)Gan(Exact2?|ByLiChun)?|Lunar\.GetGan|EightChar\.Get(Year|Month|Day|Time)Gan|Lunar(Time|Month|Year)\.GetGan`, vGan, "GAN"),
	r(`Lunar\.Get(Year|Month|Day|Time)Zhi(Exact2?|ByLiChun)?|Lunar\.GetZhi|EightChar\.Get(Year|Month|Day|Time)Zhi|Lunar(Time|Month|Year)\.GetZhi`, vZhi, "ZHI"),
	r(`Lunar\.Get(Year|Month|Day|Time)InGanZhi(Exact2?|ByLiChun)?|EightChar\.Get(Year|Month|Day|Time)|(LunarTime|LunarMonth|LunarYear|LiuNian|LiuYue|XiaoYun)\.GetGanZhi|EightChar\.Get(TaiYuan|TaiXi|MingGong|ShenGong)`, vJiaZi, "JIA_ZI"),
	r(`Lunar\.Get(Year|Month|Day|Time)ShengXiao(Exact|ByLiChun)?|Lunar\.GetShengxiao|LunarTime\.GetShengXiao|.*\.Get(Day|Time)?ChongShengXiao`, vAnimal12, "SHENG_XIAO"),
	r(`.*\.Get.*XunKong(Exact2?|ByLiChun)?`, vXunKong, "XUN_KONG"),
	r(`.*\.Get.*Xun(Exact2?|ByLiChun)?`, vXun, "XUN"),
	r(`.*\.Get.*NaYin`, vNaYin, "NAYIN"),
	r(`Lunar\.GetDayPositionTai`, vTaiDay, "POSITION_TAI_DAY"),
	r(`Lunar\.GetMonthPositionTai`, vTaiMonth, "POSITION_TAI_MONTH"),
	r(`.*\.Get.*Position.*Desc`, vPosDesc, "POSITION_DESC values"),
	r(`.*\.Get.*Position.*`, vPos, "POSITION_DESC keys"),
	r(`Lunar\.GetXiu`, vXiu, "XIU"),
	r(`Foto\.GetXiu`, vXiu27, "XIU_27"),
	r(`.*\.GetXiuLuck`, vXiuLuck, "XIU_LUCK"),
	r(`.*\.GetXiuSong`, vXiuSong, "XIU_SONG"),
	r(`.*\.GetZheng`, vZheng, "ZHENG"),
	r(`.*\.GetAnimal`, vAnimal28, "ANIMAL"),
	r(`.*\.GetGong`, vGong, "GONG"),
	r(`.*\.GetShou`, vShou, "SHOU"),
	r(`Lunar\.GetZhiXing`, vZhiXing, "ZHI_XING"),
	r(`.*\.Get(Day|Time)?TianShenType`, vTSType, "TIAN_SHEN_TYPE"),
	r(`.*\.Get(Day|Time)?TianShenLuck`, vTSLuck, "TIAN_SHEN_TYPE_LUCK"),
	r(`.*\.Get(Day|Time)?TianShen`, vTianShen, "TIAN_SHEN"),
	r(`Lunar\.GetPengZuGan`, vPengGan, "PENGZU_GAN"),
	r(`Lunar\.GetPengZuZhi`, vPengZhi, "PENGZU_ZHI"),
	r(`.*\.Get(Day|Time)?ChongGan(Tie)?`, vGan, "GAN (clash stem)"),
	r(`.*\.Get(Day|Time)?Chong`, vZhi, "ZHI (clash branch)"),
	r(`.*\.Get(Day|Time)?Sha`, vSha, "SHA"),
	r(`Lunar\.GetLiuYao`, vLiuYao, "LIU_YAO"),
	r(`Lunar\.GetYueXiang`, vYueXiang, "YUE_XIANG"),
	r(`Lunar\.GetSeason`, vSeason, "SEASON"),
	r(`Lunar\.GetWuHou`, vWuHou, "WU_HOU"),
	r(`Lunar\.GetHou`, vHou, "term + HOU"),
	r(`Lunar\.GetDayLu`, nil, ""),
	r(`EightChar\.Get(Year|Month|Day|Time)WuXing`, vWuXing2, "five-element pair"),
	r(`EightChar\.Get(Year|Month|Day|Time)ShiShenGan`, set(vals(LunarUtil.SHI_SHEN), []string{"日主"}), "SHI_SHEN"),
	r(`EightChar\.Get(Year|Month|Day|Time)DiShi|EightChar\.Get.*DiShi`, vDiShi, "CHANG_SHENG"),
	r(`Solar\.GetXing[Zz]uo`, vXingZuo, "XINGZUO"),
	r(`(Solar|Lunar)\.GetWeekInChinese`, vWeek, "WEEK"),
	r(`(Lunar|Tao|Foto)\.GetMonthInChinese`, nil, ""),
	r(`(Lunar|Tao|Foto)\.GetDayInChinese`, vDayCN, "DAY"),
	r(`Lunar\.Get(Jie|Qi|JieQi)`, set(calendar.JIE_QI, []string{""}), "JIE_QI or empty"),
	r(`JieQi\.(GetName|String)`, vTerm, "JIE_QI"),
	r(`ShuJiu\.(GetName|String|ToString)`, vShuJiu, "一九..九九"),
	r(`Fu\.(GetName|String|ToString)`, set([]string{"初伏", "中伏", "末伏"}), "初伏/中伏/末伏"),
	r(`NineStar\.GetNumber`, set(calendar.NUMBER), "NineStar NUMBER"),
	r(`NineStar\.GetColor`, set(calendar.COLOR), "NineStar COLOR"),
	r(`NineStar\.GetWuXing`, set(calendar.WU_XING), "NineStar WU_XING"),
	r(`NineStar\.GetNameInXuanKong`, set(calendar.NAME_XUAN_KONG), "NAME_XUAN_KONG"),
	r(`NineStar\.GetNameInBeiDou`, set(calendar.NAME_BEI_DOU), "NAME_BEI_DOU"),
	r(`NineStar\.GetNameInQiMen`, set(calendar.NAME_QI_MEN), "NAME_QI_MEN"),
	r(`NineStar\.GetNameInTaiYi`, set(calendar.NAME_TAI_YI), "NAME_TAI_YI"),
	r(`NineStar\.GetLuckInQiMen`, set(calendar.LUCK_QI_MEN), "LUCK_QI_MEN"),
	r(`NineStar\.GetLuckInXuanKong`, set(calendar.LUCK_XUAN_KONG), "LUCK_XUAN_KONG"),
	r(`NineStar\.GetYinYangInQiMen`, set(calendar.YIN_YANG_QI_MEN), "YIN_YANG_QI_MEN"),
	r(`NineStar\.GetTypeInTaiYi`, set(calendar.TYPE_TAI_YI), "TYPE_TAI_YI"),
	r(`NineStar\.GetSongInTaiYi`, set(calendar.SONG_TAI_YI), "SONG_TAI_YI"),
	r(`NineStar\.GetBaMenInQiMen`, set(calendar.BA_MEN_QI_MEN, []string{""}), "BA_MEN_QI_MEN (empty for the centre star)"),
}

// accessors that may legitimately return "" (explicit list; everything else must be non-empty)
var mayBeEmpty = regexp.MustCompile(`^(?:Lunar\.Get(Jie|Qi|JieQi)|Lunar\.GetMonthPositionTai|DaYun\.Get(GanZhi|Xun|XunKong)|NineStar\.GetBaMenInQiMen|(TaoFestival|FotoFestival)\.GetRemark|FotoFestival\.GetResult|Lunar\.GetDayLu)$`)

// list accessors -> element vocabulary
var listRules = []rule{
	r(`Lunar\.Get(Day|Time)(Yi|Ji)|LunarTime\.Get(Yi|Ji)`, vYiJi, "yi/ji vocabulary"),
	r(`Lunar\.GetDay(JiShen|XiongSha)`, vShenSha, "shen-sha vocabulary"),
	r(`EightChar\.Get(Year|Month|Day|Time)HideGan`, vGan, "GAN"),
	r(`EightChar\.Get(Year|Month|Day|Time)ShiShenZhi|Lunar\.GetBaZiShiShen(Year|Month|Day|Time)Zhi`, vShiShen, "SHI_SHEN"),
	r(`Lunar\.GetBaZi`, vJiaZi, "JIA_ZI"),
	r(`Lunar\.GetBaZiWuXing`, vWuXing2, "five-element pair"),
	r(`Lunar\.GetBaZiNaYin`, vNaYin, "NAYIN"),
	r(`Lunar\.GetBaZiShiShenGan`, set(vals(LunarUtil.SHI_SHEN), []string{"日主"}), "SHI_SHEN"),
	r(`Lunar\.GetBaZiShiShenZhi`, vShiShen, "SHI_SHEN"),
}

type intRule struct {
	re     *regexp.Regexp
	lo, hi int
}

var intRules = []intRule{
	{regexp.MustCompile(`GanIndex`), 0, 9},
	{regexp.MustCompile(`ZhiIndex`), 0, 11},
	{regexp.MustCompile(`^NineStar\.GetIndex$`), 0, 8},
	{regexp.MustCompile(`^(Solar|Lunar)\.GetWeek$`), 0, 6},
	{regexp.MustCompile(`^(Solar|Lunar|LunarTime)\.GetHour$|^Yun\.GetStartHour$`), 0, 23},
	{regexp.MustCompile(`\.GetMinute$|\.GetSecond$`), 0, 59},
	{regexp.MustCompile(`^Solar\.GetMonth$|^SolarMonth\.GetMonth$|^SolarWeek\.GetMonth$|^SolarSeason\.GetMonth$|^SolarHalfYear\.GetMonth$`), 1, 12},
	{regexp.MustCompile(`^Solar\.GetDay$|^SolarWeek\.GetDay$`), 1, 31},
	{regexp.MustCompile(`^(Lunar|Tao|Foto)\.GetDay$`), 1, 30},
	{regexp.MustCompile(`^(Lunar|Tao|Foto|LunarMonth)\.GetMonth$`), -12, 12},
	{regexp.MustCompile(`^LunarMonth\.GetDayCount$`), 28, 30},
	{regexp.MustCompile(`^LunarMonth\.GetIndex$`), 1, 15},
	{regexp.MustCompile(`^LunarYear\.GetLeapMonth$`), 0, 12},
	{regexp.MustCompile(`^LunarYear\.GetDayCount$`), 325, 385},
	{regexp.MustCompile(`^SolarWeek\.GetIndex$`), 1, 6},
	{regexp.MustCompile(`^SolarWeek\.GetIndexInYear$`), 1, 54},
	{regexp.MustCompile(`^SolarSeason\.GetIndex$`), 1, 4},
	{regexp.MustCompile(`^SolarHalfYear\.GetIndex$`), 1, 2},
	{regexp.MustCompile(`^ShuJiu\.GetIndex$`), 1, 9},
	{regexp.MustCompile(`^Fu\.GetIndex$`), 1, 20},
	{regexp.MustCompile(`^Yun\.GetStartMonth$`), 0, 11},
	{regexp.MustCompile(`^Yun\.GetStartDay$`), 0, 29},
	{regexp.MustCompile(`^Yun\.GetStartYear$`), 0, 10},
	{regexp.MustCompile(`^Yun\.GetGender$`), 0, 1},
	{regexp.MustCompile(`^EightChar\.GetSect$`), 1, 2},
	{regexp.MustCompile(`^DaYun\.GetIndex$`), 0, 9},
	// the span before the first great fortune can hold 11 annual entries (start offset above ten years)
	{regexp.MustCompile(`^(LiuNian|XiaoYun)\.GetIndex$`), 0, 10},
	{regexp.MustCompile(`^LiuYue\.GetIndex$`), 0, 11},
	{regexp.MustCompile(`^Solar\.GetSalaryRate$`), 1, 3},
}

// ------------------------------------------------------------------------------------------

type objCase struct {
	T      ref.DT
	Gender int
	Sect   int // yun sect and eight-char sect
	Start  int // week start
}

func listStrings(v reflect.Value) ([]string, bool) {
	if !v.IsValid() {
		return nil, false
	}
	if l, ok := v.Interface().(*list.List); ok && l != nil {
		var out []string
		for e := l.Front(); e != nil; e = e.Next() {
			switch x := e.Value.(type) {
			case string:
				out = append(out, x)
			case fmt.Stringer:
				out = append(out, x.String())
			default:
				out = append(out, fmt.Sprint(x))
			}
		}
		return out, true
	}
	if (v.Kind() == reflect.Slice || v.Kind() == reflect.Array) && v.Type().Elem().Kind() == reflect.String {
		var out []string
		for i := 0; i < v.Len(); i++ {
			out = append(out, v.Index(i).String())
		}
		return out, true
	}
	return nil, false
}

// judge applies the well-formedness rules to one accessor call.
func judge(c dig.Call) error {
	key := c.Type + "." + c.Method
	if c.Panic != "" {
		return fmt.Errorf("%s panicked: %s", c.Path, c.Panic)
	}
	v := c.Value
	switch v.Kind() {
	case reflect.Int:
		n := int(v.Int())
		for _, ir := range intRules {
			if ir.re.MatchString(key) {
				if n < ir.lo || n > ir.hi {
					return fmt.Errorf("%s = %d, outside %d..%d", c.Path, n, ir.lo, ir.hi)
				}
				break
			}
		}
	case reflect.String:
		s := v.String()
		if s == "" && !mayBeEmpty.MatchString(key) {
			return fmt.Errorf("%s returned an empty string", c.Path)
		}
		for _, sr := range strRules {
			if sr.re.MatchString(key) {
				ruleHits[sr.name]++
				if sr.vocab != nil && s != "" && !sr.vocab[s] {
					return fmt.Errorf("%s = %q is not in the published vocabulary %s", c.Path, s, sr.name)
				}
				if sr.vocab != nil && s == "" && !sr.vocab[""] && !mayBeEmpty.MatchString(key) {
					return fmt.Errorf("%s returned an empty string (vocabulary %s)", c.Path, sr.name)
				}
				break
			}
		}
	}
	if xs, ok := listStrings(v); ok {
		seen := map[string]bool{}
		for _, x := range xs {
			if x == "" && !strings.Contains(key, "GetBaZi") {
				return fmt.Errorf("%s contains an empty element: %q", c.Path, xs)
			}
			if seen[x] && v.Kind() != reflect.Array && !strings.Contains(key, "HideGan") && !strings.Contains(key, "ShiShen") && !strings.Contains(key, "GetBaZi") {
				return fmt.Errorf("%s contains the duplicate entry %q: %q", c.Path, x, xs)
			}
			seen[x] = true
		}
		if seen["无"] && len(xs) > 1 {
			return fmt.Errorf("%s contains 无 together with other entries: %q", c.Path, xs)
		}
		for _, lr := range listRules {
			if lr.re.MatchString(key) {
				for _, x := range xs {
					if !lr.vocab[x] {
						return fmt.Errorf("%s element %q is not in the published vocabulary %s", c.Path, x, lr.name)
					}
				}
				break
			}
		}
	}
	return nil
}

// objects enumerates every object reachable from the date through calls that need arguments.
func objects(c objCase) []interface{} {
	t := c.T
	s := gen.Solar(t)
	l := s.GetLunar()
	objs := []interface{}{s, l}
	ec := l.GetEightChar()
	ec.SetSect(c.Sect)
	objs = append(objs, ec)
	yun := ec.GetYunBySect(c.Gender, c.Sect)
	objs = append(objs, yun)
	dys := yun.GetDaYun()
	for i, d := range dys {
		objs = append(objs, d)
		if i == 0 || i == 1 || i == len(dys)-1 {
			lns := d.GetLiuNian()
			for k, ln := range lns {
				objs = append(objs, ln)
				if k == 0 {
					for _, ly := range ln.GetLiuYue() {
						objs = append(objs, ly)
					}
				}
			}
			for _, x := range d.GetXiaoYun() {
				objs = append(objs, x)
			}
		}
	}
	objs = append(objs, l.GetTime())
	for _, lt := range l.GetTimes() {
		objs = append(objs, lt)
	}
	objs = append(objs, l.GetYearNineStarBySect(1), l.GetYearNineStarBySect(2), l.GetYearNineStarBySect(3),
		l.GetMonthNineStarBySect(1), l.GetMonthNineStarBySect(2), l.GetMonthNineStarBySect(3))
	objs = append(objs, l.GetTao(), l.GetFoto())
	objs = append(objs, calendar.NewLunarYear(l.GetYear()), calendar.NewLunarMonthFromYm(l.GetYear(), l.GetMonth()))
	objs = append(objs, calendar.NewSolarWeekFromYmd(t.Y, t.M, t.D, c.Start), calendar.NewSolarMonthFromYm(t.Y, t.M),
		calendar.NewSolarSeasonFromYm(t.Y, t.M), calendar.NewSolarHalfYearFromYm(t.Y, t.M), calendar.NewSolarYearFromYear(t.Y))
	if h := HolidayUtil.GetHolidayByYmd(t.Y, t.M, t.D); h != nil {
		objs = append(objs, h)
	}
	return objs
}

func argInts(in []reflect.Value) []interface{} {
	var out []interface{}
	for _, v := range in {
		out = append(out, v.Interface())
	}
	return out
}

var emptySeen = map[string]int{}

var accessors = ev.Register(&ev.P[objCase]{
	Name: "accessors_total_and_wellformed",
	Rule: "generated (date-time, gender, sect, week start); every exported zero-argument method (discovered by reflection) of the civil date, lunar date, eight characters, fortune (Yun, all DaYun, LiuNian/XiaoYun of periods 0,1,last, LiuYue of the first annual entry), hour objects (GetTime + 13 GetTimes), nine stars under all sects, Taoist/Buddhist dates and their festivals, lunar year/month, civil week/month/season/half-year/year, terms, Fu, ShuJiu, Holiday, recursing one level into returned objects; the switch of the eight characters also takes values other than 1 and 2 (documented to mean 2); the lunar date's argument-taking accessors (…BySect, …ByWholeDay, Next) are called with rotating arguments and the zero-argument pass is repeated on that same object; oracle: no panic; index-like ints in their tables' ranges; strings of the table-lookup families are members of the exported vocabulary (yi/ji and shen-sha through the verif hook); strings not on the explicit may-be-empty list are non-empty; lists have no empty or duplicate element and 无 only alone; non-trivial: the date has a (Foto/Tao/lunar/civil) festival or term, is in a leap month, 23:xx, or within 3 years of a range end",
	Check: func(c objCase) error {
		var first error
		n := 0
		// what a January day of the date's lunar year converts to, before any accessor has run
		ly0 := gen.Solar(c.T).GetLunar().GetYear()
		probe := func() string {
			if ly0 < 1 || ly0 > 9998 {
				return ""
			}
			var out string
			func() {
				defer func() {
					if r := recover(); r != nil {
						out = fmt.Sprintf("PANIC:%v", r)
					}
				}()
				x := calendar.NewSolarFromYmd(ly0, 1, 15).GetLunar()
				out = fmt.Sprintf("%d/%d/%d %s", x.GetYear(), x.GetMonth(), x.GetDay(), x.String())
			}()
			return out
		}
		before := probe()
		defer func() { _ = before }()
		for _, o := range objects(c) {
			dig.Visit(o, 1, func(call dig.Call) {
				n++
				if first == nil {
					if err := judge(call); err != nil {
						first = fmt.Errorf("%v gender=%d sect=%d start=%d: %v", c.T, c.Gender, c.Sect, c.Start, err)
					}
				}
			})
			if first != nil {
				return first
			}
		}
		// accessors that take a convention / whole-day / step argument are accessors, too: each is called on ONE lunar
		// date (arguments rotate with the case), must not panic, and the zero-argument accessors asked afterwards on
		// that same object must still be total and well formed
		if c.T.Y >= 3 && c.T.Y <= 9996 {
			l2 := gen.Solar(c.T).GetLunar()
			lv := reflect.ValueOf(l2)
			rot := c.T.D + c.T.H + c.T.Mi + c.Start
			for i := 0; i < lv.NumMethod(); i++ {
				m := lv.Type().Method(i)
				if m.Type.NumIn() < 2 || m.Type.NumOut() == 0 || strings.HasPrefix(m.Name, "Set") {
					continue
				}
				var in []reflect.Value
				ok := true
				for k := 1; k < m.Type.NumIn(); k++ {
					switch m.Type.In(k).Kind() {
					case reflect.Bool:
						in = append(in, reflect.ValueOf((rot+i)%2 == 0))
					case reflect.Int:
						v := []int{1, 2, 3, 2, 1, 0, 4}[(rot+i)%7]
						if m.Name == "Next" {
							v = []int{1, -1, 0, 2, 30, -30, 365}[(rot+i)%7]
						}
						in = append(in, reflect.ValueOf(v))
					default:
						ok = false
					}
				}
				if !ok {
					continue
				}
				if msg := func() (msg string) {
					defer func() {
						if r := recover(); r != nil {
							msg = fmt.Sprint(r)
						}
					}()
					lv.Method(i).Call(in)
					return ""
				}(); msg != "" {
					return fmt.Errorf("%v: Lunar.%s%v panics: %s", c.T, m.Name, argInts(in), msg)
				}
				n++
			}
			dig.Visit(l2, 0, func(call dig.Call) {
				n++
				if first == nil {
					if err := judge(call); err != nil {
						first = fmt.Errorf("%v (after the argument-taking accessors of the same object were called): %v", c.T, err)
					}
				}
			})
			if first != nil {
				return first
			}
		}
		calls += int64(n)
		// the accessors are read-only: after all of them ran on the (cached, shared) year table, converting a
		// day of that year still works and gives what it gave before
		dig.Visit(calendar.NewLunarYear(ly0), 0, func(dig.Call) {})
		if after := probe(); after != before {
			return fmt.Errorf("%v: converting %04d-01-15 gave %q before the accessors of LunarYear(%d) were called and %q right after", c.T, ly0, before, ly0, after)
		}
		return nil
	},
	Class: func(c objCase) ([]string, bool) {
		l := gen.Solar(c.T).GetLunar()
		ls := []string{gen.Era(c.T.Y)}
		nt := false
		if l.GetFestivals().Len()+l.GetOtherFestivals().Len()+l.GetSolar().GetFestivals().Len() > 0 {
			ls, nt = append(ls, "festival"), true
		}
		if l.GetFoto().GetFestivals().Len() > 0 {
			ls, nt = append(ls, "fotoFestival"), true
		}
		if l.GetTao().GetFestivals().Len() > 0 {
			ls, nt = append(ls, "taoFestival"), true
		}
		if l.GetJieQi() != "" {
			ls, nt = append(ls, "termDay"), true
		}
		if l.GetMonth() < 0 {
			ls, nt = append(ls, "leapMonth"), true
		}
		if c.T.H == 23 {
			ls, nt = append(ls, "hour23"), true
		}
		if c.T.Y <= 3 || c.T.Y >= 9996 {
			ls, nt = append(ls, "rangeEnd"), true
		}
		if l.GetShuJiu() != nil {
			ls = append(ls, "shuJiu")
		}
		if l.GetFu() != nil {
			ls = append(ls, "fu")
		}
		if HolidayUtil.GetHolidayByYmd(c.T.Y, c.T.M, c.T.D) != nil {
			ls = append(ls, "holiday")
		}
		return ls, nt
	},
	Known: func(c objCase, err error) string {
		return ""
	},
	Require: []string{"festival", "fotoFestival", "taoFestival", "termDay", "leapMonth", "hour23", "rangeEnd", "shuJiu", "fu", "holiday"},
})

var calls int64
var ruleHits = map[string]int64{}

// ------------------------------------------------------------------------------------------
// utility decoders over their whole domains

type utilCase struct {
	Fn   string
	A, B int
}

func listOf(l *list.List) []string {
	var out []string
	for e := l.Front(); e != nil; e = e.Next() {
		out = append(out, e.Value.(string))
	}
	return out
}

func wellFormedList(xs []string, vocab map[string]bool, what string) error {
	if len(xs) == 0 {
		return fmt.Errorf("%s returned an empty list", what)
	}
	seen := map[string]bool{}
	for _, x := range xs {
		if x == "" {
			return fmt.Errorf("%s contains an empty element: %q", what, xs)
		}
		if seen[x] {
			return fmt.Errorf("%s contains the duplicate entry %q: %q", what, x, xs)
		}
		seen[x] = true
		if !vocab[x] {
			return fmt.Errorf("%s element %q is not in the published vocabulary", what, x)
		}
	}
	if seen["无"] && len(xs) > 1 {
		return fmt.Errorf("%s contains 无 together with other entries", what)
	}
	return nil
}

var utilities = ev.Register(&ev.P[utilCase]{
	Name: "decoder_domains",
	Rule: "whole domains enumerated: GetDayYi/GetDayJi (60 month pillars x 60 day pillars), GetTimeYi/GetTimeJi (60 x 60), GetDayJiShen/GetDayXiongSha (months ±1..12 x 60), GetXun/GetXunKong/GetXunIndex (60), FotoUtil.GetXiu (months ±1..12 x days 1..30); oracle: no panic, non-empty list, every element in the hook-exported vocabulary, no duplicate, 无 only alone; non-trivial: every case (decoders have no trivial input); distinct = (function, arguments)",
	Check: func(c utilCase) error {
		switch c.Fn {
		case "DayYiJi":
			m, d := LunarUtil.JIA_ZI[c.A], LunarUtil.JIA_ZI[c.B]
			if err := wellFormedList(listOf(LunarUtil.GetDayYi(m, d)), vYiJi, fmt.Sprintf("GetDayYi(%s,%s)", m, d)); err != nil {
				return err
			}
			return wellFormedList(listOf(LunarUtil.GetDayJi(m, d)), vYiJi, fmt.Sprintf("GetDayJi(%s,%s)", m, d))
		case "TimeYiJi":
			d, t := LunarUtil.JIA_ZI[c.A], LunarUtil.JIA_ZI[c.B]
			if err := wellFormedList(listOf(LunarUtil.GetTimeYi(d, t)), vYiJi, fmt.Sprintf("GetTimeYi(%s,%s)", d, t)); err != nil {
				return err
			}
			return wellFormedList(listOf(LunarUtil.GetTimeJi(d, t)), vYiJi, fmt.Sprintf("GetTimeJi(%s,%s)", d, t))
		case "ShenSha":
			d := LunarUtil.JIA_ZI[c.B]
			if err := wellFormedList(listOf(LunarUtil.GetDayJiShen(c.A, d)), vShenSha, fmt.Sprintf("GetDayJiShen(%d,%s)", c.A, d)); err != nil {
				return err
			}
			return wellFormedList(listOf(LunarUtil.GetDayXiongSha(c.A, d)), vShenSha, fmt.Sprintf("GetDayXiongSha(%d,%s)", c.A, d))
		case "Xun":
			p := LunarUtil.JIA_ZI[c.A]
			if !vXun[LunarUtil.GetXun(p)] || !vXunKong[LunarUtil.GetXunKong(p)] {
				return fmt.Errorf("GetXun/GetXunKong(%s) = %q/%q", p, LunarUtil.GetXun(p), LunarUtil.GetXunKong(p))
			}
			if i := LunarUtil.GetXunIndex(p); i < 0 || i > 5 {
				return fmt.Errorf("GetXunIndex(%s) = %d", p, i)
			}
			if LunarUtil.GetJiaZiIndex(p) != c.A {
				return fmt.Errorf("GetJiaZiIndex(%s) = %d", p, LunarUtil.GetJiaZiIndex(p))
			}
		case "FotoXiu":
			if x := FotoUtil.GetXiu(c.A, c.B); !vXiu27[x] {
				return fmt.Errorf("FotoUtil.GetXiu(%d,%d) = %q", c.A, c.B, x)
			}
		}
		return nil
	},
	Class:    func(c utilCase) ([]string, bool) { return []string{"fn:" + c.Fn}, true },
	Disjoint: true,
})

// the decoders answer the same whatever was asked before: whole domain, four question orders, four fresh processes
type orderCase struct{ Orders []string }

var decoderOrders = ev.Register(&ev.P[orderCase]{
	Name: "decoders_order_independent_across_processes",
	Rule: "the whole domain of the packed-table decoders (GetDayYi/Ji and GetTimeYi/Ji for all 60x60 name pairs — also pairs that no moment has — and GetDayJiShen/XiongSha for months ±1..12 x 60) is asked in a fresh child process, once per question order: upwards, downwards, after a round of invalid names, and with the pairs a moment can have first; oracle: every question has the same answer in all four processes (a memo filled by whoever comes first, a slot taken by a failed look-up, or an unset entry mistaken for a hit shows as a difference); one case of 4 x 8640 questions; non-trivial: always",
	Check: func(c orderCase) error {
		exe, err := os.Executable()
		if err != nil {
			ev.Infra("os.Executable: %v", err)
			return nil
		}
		var ref0 []string
		for _, o := range c.Orders {
			cmd := exec.Command(exe)
			cmd.Env = append(os.Environ(), "VERIF_C08_DECODERS="+o)
			b, err := cmd.Output()
			if err != nil {
				ev.Infra("decoder child (%s) failed: %v", o, err)
				return nil
			}
			var lines []string
			for _, l := range strings.Split(string(b), "\n") {
				if strings.HasPrefix(l, "D ") {
					lines = append(lines, l[2:])
				}
			}
			if len(lines) != 60*60*2+24*60 {
				ev.Infra("decoder child (%s) printed %d answers", o, len(lines))
				return nil
			}
			if ref0 == nil {
				ref0 = lines
				continue
			}
			for i := range lines {
				if lines[i] != ref0[i] {
					return fmt.Errorf("asked in order %q a fresh process answers %q, asked in order %q it answers %q", c.Orders[0], ref0[i], o, lines[i])
				}
			}
		}
		return nil
	},
	Class: func(c orderCase) ([]string, bool) { return []string{"orders"}, true },
})

// ------------------------------------------------------------------------------------------

func genObj(t *rapid.T) objCase {
	var d ref.DT
	switch rapid.IntRange(0, 5).Draw(t, "dateKind") {
	case 0: // lunar festival days: lunar m/d small numbers
		y := gen.Year(t, 1, 9997)
		ly := calendar.NewLunarYear(y)
		var ms []*calendar.LunarMonth
		for e := ly.GetMonthsInYear().Front(); e != nil; e = e.Next() {
			ms = append(ms, e.Value.(*calendar.LunarMonth))
		}
		m := ms[rapid.IntRange(0, len(ms)-1).Draw(t, "lm")]
		dd := rapid.SampledFrom([]int{1, 3, 5, 7, 8, 9, 14, 15, 16, 19, 23, 24, 28, 29, 30}).Draw(t, "ld")
		if dd > m.GetDayCount() {
			dd = m.GetDayCount()
		}
		s := calendar.NewLunar(y, m.GetMonth(), dd, 0, 0, 0).GetSolar()
		h, mi, sec := gen.Time(t)
		d = ref.DT{Y: s.GetYear(), M: s.GetMonth(), D: s.GetDay(), H: h, Mi: mi, S: sec}
		if d.Y < 1 || d.Y > 9998 {
			d = ref.DT{Y: y, M: 6, D: 1}
		}
	case 1: // recorded holidays
		y := rapid.IntRange(2002, 2025).Draw(t, "hy")
		m := rapid.SampledFrom([]int{1, 2, 4, 5, 6, 9, 10}).Draw(t, "hm")
		dd := rapid.IntRange(1, 8).Draw(t, "hd")
		h, mi, sec := gen.Time(t)
		d = ref.DT{Y: y, M: m, D: dd, H: h, Mi: mi, S: sec}
	case 2: // winter / summer counters, aimed at their first and last days
		y := gen.Year(t, 2, 9997)
		ts := gen.Terms(y)
		var j int
		if rapid.Bool().Draw(t, "winter") {
			dz := ts[1] // winter solstice of the previous December
			j = ref.JDN(dz.Y, dz.M, dz.D) + rapid.SampledFrom([]int{-1, 0, 1, 8, 9, 17, 18, 26, 27, 44, 45, 71, 72, 79, 80, 81, 82}).Draw(t, "k9")
		} else {
			xz := ts[13] // summer solstice
			j = ref.JDN(xz.Y, xz.M, xz.D) + rapid.IntRange(18, 70).Draw(t, "kfu")
		}
		yy, mm, dd := ref.FromJDN(j)
		if yy < 1 || yy > 9998 {
			yy, mm, dd = y, 1, 15
		}
		h, mi, sec := gen.Time(t)
		d = ref.DT{Y: yy, M: mm, D: dd, H: h, Mi: mi, S: sec}
	default:
		d = gen.Moment(t)
	}
	return objCase{T: d, Gender: rapid.IntRange(0, 1).Draw(t, "gender"), Sect: rapid.SampledFrom([]int{1, 2, 1, 2, 0, 3, -1}).Draw(t, "sect"), Start: rapid.IntRange(0, 6).Draw(t, "start")}
}

func TestC08(t *testing.T) {
	ev.Assume("published vocabularies = the library's exported tables (yi/ji and shen-sha lists through the verif hook)")
	// decoder domains (both tiers: ~25k cheap calls), split over shards
	k := 0
	add := func(c utilCase) {
		if ev.Mine(k) {
			utilities.Eval(c)
		}
		k++
	}
	for a := 0; a < 60; a++ {
		add(utilCase{"Xun", a, 0})
		for b := 0; b < 60; b++ {
			add(utilCase{"DayYiJi", a, b})
			add(utilCase{"TimeYiJi", a, b})
		}
	}
	for m := -12; m <= 12; m++ {
		if m == 0 {
			continue
		}
		for b := 0; b < 60; b++ {
			add(utilCase{"ShenSha", m, b})
		}
		for d := 1; d <= 30; d++ {
			add(utilCase{"FotoXiu", m, d})
		}
	}
	// births whose fortune start is computed across the 1582 gap (Oct 5..14 of the ten years before)
	kk := 0
	for y := 1572; y <= 1581; y++ {
		for _, d := range []int{5, 9, 14} {
			for g := 0; g <= 1; g++ {
				if ev.Mine(kk) && (ev.Thorough() || (y+d+g)%3 == 0) {
					accessors.Eval(objCase{T: ref.DT{Y: y, M: 10, D: d, H: 12}, Gender: g, Sect: 1 + (y+d)%2, Start: d % 7})
				}
				kk++
			}
		}
	}
	if ev.Shard == 0 {
		decoderOrders.Eval(orderCase{[]string{"asc", "desc", "invalidFirst", "validFirst"}})
	}
	utilities.Exhaustive("GetDayYi/Ji 60x60, GetTimeYi/Ji 60x60, GetDayJiShen/XiongSha 24x60, GetXun* 60, FotoUtil.GetXiu 24x30")
	accessors.Rapid(ev.Share(ev.Pick(1600, 32000)), genObj)
	ev.Note("shard %d made %d reflective accessor calls", ev.Shard, calls)
	if ev.Shard == 0 {
		var ks []string
		for k := range ruleHits {
			ks = append(ks, fmt.Sprintf("%s:%d", k, ruleHits[k]))
		}
		sort.Strings(ks)
		ev.Note("vocabulary rule hits on shard 0: %s", strings.Join(ks, " "))
		for _, sr := range strRules {
			if sr.vocab != nil && ruleHits[sr.name] == 0 {
				ev.Infra("vocabulary rule %q matched no accessor (rule table out of date)", sr.name)
			}
		}
	}
	_ = sort.Strings
}
