//go:build verif

// C09 — results do not depend on call history or on concurrent callers.
package c09

import (
	"container/list"
	"encoding/json"
	"fmt"
	"os"
	"os/exec"
	"reflect"
	"runtime"
	"sort"
	"strings"
	"sync"
	"sync/atomic"
	"testing"
	"time"

	"github.com/6tail/lunar-go/FotoUtil"
	"github.com/6tail/lunar-go/HolidayUtil"
	"github.com/6tail/lunar-go/LunarUtil"
	"github.com/6tail/lunar-go/ShouXingUtil"
	"github.com/6tail/lunar-go/SolarUtil"
	"github.com/6tail/lunar-go/calendar"
	"pgregory.net/rapid"
	"verif/internal/dig"
	"verif/internal/ev"
	"verif/internal/gen"
	"verif/internal/ref"
)

func TestMain(m *testing.M) {
	if os.Getenv("VERIF_C09_SEQ") != "" {
		os.Exit(seqChildMain())
	}
	if os.Getenv("VERIF_C09_CHILD") != "" {
		os.Exit(childMain())
	}
	ev.Main(m, "C09")
}

// ------------------------------------------------------------------------------------------
// calls: a small closed language of public library calls with printable arguments

type call struct {
	Kind    string
	A, B, C int // year / month / day (meaning depends on Kind)
	H       int // hour (0..23) or step
}

var callKinds = []string{"SolarToLunar", "NewLunar", "LunarYearTable", "LunarMonthNext", "BadLunarMonth", "BadLunarDay", "BadSolar", "FarYear", "ReverseBaZi", "Holiday", "EdgeYear", "TermTable", "SolarWeekWalk",
	"Fortune", "EightCharFull", "TaoFoto", "CivilUnits", "HolidayViews", "TwiceInARow", "AncientYear", "UtilDecoders", "UtilBadArgs", "AstroDirect", "CivilUtil", "HugeYear"}

// small pools: direct utility calls draw their pillar indices from a few values so that the same (or a neighbouring)
// table slot is asked by different calls of one history
var fewPillars = []int{0, 1, 2, 58, 59, 11, 30}
var badNames = []string{"", "已巳", "XX", "甲", "子甲", "甲子 "}

func listStr(l *list.List) string {
	var ss []string
	for e := l.Front(); e != nil; e = e.Next() {
		ss = append(ss, fmt.Sprint(e.Value))
	}
	return strings.Join(ss, ",")
}

// ancientYear maps a generated year to an astronomical year <= 0 the library still computes (its new-moon and
// term tables reach back to -721 and -221): the first table intervals, and anything in -799..0.
func ancientYear(y int) int {
	switch y % 4 {
	case 0:
		return -721 + (y/4)%242
	case 1:
		return -221 + (y/4)%5
	}
	return -((y / 4) % 800)
}

func digestString(d map[string]string) string {
	ks := make([]string, 0, len(d))
	for k := range d {
		ks = append(ks, k)
	}
	sort.Strings(ks)
	var sb strings.Builder
	for _, k := range ks {
		sb.WriteString(k)
		sb.WriteByte('=')
		sb.WriteString(d[k])
		sb.WriteByte('\n')
	}
	return sb.String()
}

// run executes one call and renders everything it returns; a panic is rendered, not propagated
// (that is the "recovered" of the statement).
func run(c call) (out string) {
	defer func() {
		if r := recover(); r != nil {
			out = fmt.Sprintf("PANIC:%v", r)
		}
	}()
	y := c.A
	switch c.Kind {
	case "SolarToLunar":
		l := calendar.NewSolar(y, c.B, c.C, c.H, 30, 0).GetLunar()
		return digestString(dig.Of(l, 0))
	case "NewLunar":
		l := calendar.NewLunar(y, c.B, c.C, c.H, 0, 0)
		return digestString(dig.Of(l, 0))
	case "LunarYearTable":
		ly := calendar.NewLunarYear(y)
		return digestString(dig.Of(ly, 1))
	case "LunarMonthNext":
		m := calendar.NewLunarMonthFromYm(y, c.B)
		if m == nil {
			return "nil month"
		}
		n := m.Next(c.H - 12)
		return digestString(dig.Of(n, 0))
	case "BadLunarMonth":
		calendar.NewLunar(y, 13, 1, 0, 0, 0)
		return "accepted"
	case "BadLunarDay":
		calendar.NewLunar(y, c.B, 31, 0, 0, 0)
		return "accepted"
	case "BadSolar":
		calendar.NewSolar(y, 2, 30, 0, 0, 0)
		return "accepted"
	case "FarYear":
		l := calendar.NewSolar(9998-y%7, 6, 1, 0, 0, 0).GetLunar()
		return l.String() + " " + l.GetYearInGanZhi()
	case "EdgeYear": // years at and just beyond the documented range, recovered if they panic
		yy := []int{9999, 10000, 0, -1, 9998, 1}[y%6]
		l := calendar.NewSolarFromYmd(yy, 6, 1).GetLunar()
		return l.String()
	case "ReverseBaZi":
		l := calendar.NewSolar(1900+y%120, c.B, c.C, c.H, 0, 0).GetLunar()
		ec := l.GetEightChar()
		lst := calendar.ListSolarFromBaZiBySectAndBaseYear(ec.GetYear(), ec.GetMonth(), ec.GetDay(), ec.GetTime(), 2, 1900)
		var ss []string
		for e := lst.Front(); e != nil; e = e.Next() {
			if s := e.Value.(*calendar.Solar); s.GetYear() <= 2020 {
				ss = append(ss, s.ToYmdHms())
			}
		}
		return strings.Join(ss, ",")
	case "Holiday":
		h := HolidayUtil.GetHolidayByYmd(2001+y%25, c.B, c.C)
		if h == nil {
			return "nil"
		}
		return h.String()
	case "TermTable":
		l := calendar.NewSolarFromYmd(y, c.B, c.C).GetLunar()
		var ss []string
		for e := l.GetJieQiList().Front(); e != nil; e = e.Next() {
			k := e.Value.(string)
			ss = append(ss, k+"@"+l.GetJieQiTable()[k].ToYmdHms())
		}
		return strings.Join(ss, ",")
	case "SolarWeekWalk":
		w := calendar.NewSolarWeekFromYmd(y, c.B, c.C, c.H%7).Next(c.H-12, false)
		return w.GetFirstDay().ToYmd()
	case "Fortune": // great / annual / monthly / minor fortunes of a chart
		ec := calendar.NewSolar(y, c.B, c.C, c.H, 15, 0).GetLunar().GetEightChar()
		yun := ec.GetYunBySect(c.H%2, 1+c.C%2)
		var sb strings.Builder
		fmt.Fprintf(&sb, "%v %d/%d/%d/%d %s|", yun.IsForward(), yun.GetStartYear(), yun.GetStartMonth(), yun.GetStartDay(), yun.GetStartHour(), yun.GetStartSolar().ToYmdHms())
		for i, d := range yun.GetDaYun() {
			fmt.Fprintf(&sb, "D%d:%s %d-%d;", i, d.GetGanZhi(), d.GetStartYear(), d.GetEndYear())
			if i == 1+c.C%8 {
				for _, ln := range d.GetLiuNian() {
					fmt.Fprintf(&sb, "N%d:%s[", ln.GetYear(), ln.GetGanZhi())
					for _, ly := range ln.GetLiuYue() {
						sb.WriteString(ly.GetGanZhi())
					}
					sb.WriteString("]")
				}
				for _, x := range d.GetXiaoYun() {
					sb.WriteString(x.GetGanZhi())
				}
			}
		}
		return sb.String()
	case "EightCharFull":
		ec := calendar.NewSolar(y, c.B, c.C, c.H, 45, 0).GetLunar().GetEightChar()
		return digestString(dig.Of(ec, 0))
	case "TaoFoto":
		l := calendar.NewSolar(y, c.B, c.C, c.H, 0, 0).GetLunar()
		return digestString(dig.Of(l.GetTao(), 1)) + digestString(dig.Of(l.GetFoto(), 1))
	case "CivilUnits":
		s := calendar.NewSolar(y, c.B, c.C, c.H, 0, 0)
		w := calendar.NewSolarWeekFromYmd(y, c.B, c.C, c.H%7)
		nx := w.Next(c.H-12, true)
		return digestString(dig.Of(s, 0)) + digestString(dig.Of(w, 0)) + digestString(dig.Of(calendar.NewSolarMonthFromYm(y, c.B), 0)) +
			fmt.Sprintf("weeks=%d/%d next=%d-%d-%d", SolarUtil.GetWeeksOfMonth(y, c.B, c.H%7), calendar.NewSolarMonthFromYm(y, c.B).GetWeeks(c.H%7).Len(), nx.GetYear(), nx.GetMonth(), nx.GetDay())
	case "HolidayViews":
		yy := 2001 + y%25
		var ss []string
		for _, l := range []*list.List{HolidayUtil.GetHolidaysByYm(yy, c.B), HolidayUtil.GetHolidaysByTargetYmd(yy, []int{1, 5, 10}[c.C%3], 1), HolidayUtil.GetHolidaysByYear(yy)} {
			for e := l.Front(); e != nil; e = e.Next() {
				ss = append(ss, e.Value.(*HolidayUtil.Holiday).String())
			}
			ss = append(ss, "|")
		}
		return strings.Join(ss, ",")
	case "AncientYear": // years before AD 1: conversion and the year's month table
		yy := ancientYear(y)
		l := calendar.NewSolarFromYmd(yy, c.B, c.C).GetLunar()
		var sb strings.Builder
		fmt.Fprintf(&sb, "%d: %d/%d/%d %s %s %s|", yy, l.GetYear(), l.GetMonth(), l.GetDay(), l.GetYearInGanZhi(), l.GetMonthInGanZhi(), l.GetDayInGanZhi())
		ly := calendar.NewLunarYear(yy)
		fmt.Fprintf(&sb, "leap=%d days=%d:", ly.GetLeapMonth(), ly.GetDayCount())
		for e := ly.GetMonths().Front(); e != nil; e = e.Next() {
			m := e.Value.(*calendar.LunarMonth)
			fmt.Fprintf(&sb, "%d/%d@%.1f+%d,", m.GetYear(), m.GetMonth(), m.GetFirstJulianDay(), m.GetDayCount())
		}
		for _, jd := range ly.GetJieQiJulianDays() {
			fmt.Fprintf(&sb, "%.5f;", jd)
		}
		return sb.String()
	case "UtilDecoders": // the exported table decoders, called directly with valid pillars
		jz := LunarUtil.JIA_ZI
		a, b := jz[fewPillars[ref.Mod(y, len(fewPillars))]], jz[fewPillars[ref.Mod(c.B+c.C, len(fewPillars))]]
		if c.H%3 == 0 {
			a = jz[59] // the last pair of the cycle as month / day pillar
		}
		mm := []int{1, -1, 12, -12, 6, 2}[ref.Mod(c.C, 6)]
		return strings.Join([]string{"yi:" + listStr(LunarUtil.GetDayYi(a, b)), "ji:" + listStr(LunarUtil.GetDayJi(a, b)), "tyi:" + listStr(LunarUtil.GetTimeYi(a, b)), "tji:" + listStr(LunarUtil.GetTimeJi(a, b)),
			"js:" + listStr(LunarUtil.GetDayJiShen(mm, b)), "xs:" + listStr(LunarUtil.GetDayXiongSha(mm, b)), LunarUtil.GetXun(a), LunarUtil.GetXunKong(b), fmt.Sprint(LunarUtil.GetXunIndex(a), LunarUtil.GetJiaZiIndex(b)),
			FotoUtil.GetXiu(mm, 1+ref.Mod(c.C, 30)), fmt.Sprint(LunarUtil.GetTimeZhiIndex(fmt.Sprintf("%02d:%02d", c.H, c.C)))}, "|")
	case "UtilBadArgs": // the same decoders with names that are not pillars (they answer 无 / -1, or panic: recovered)
		jz := LunarUtil.JIA_ZI
		bad := badNames[ref.Mod(y+c.C, len(badNames))]
		good := jz[fewPillars[ref.Mod(c.B, len(fewPillars))]]
		var parts []string
		for _, f := range []func() string{
			func() string { return listStr(LunarUtil.GetDayYi(bad, good)) }, func() string { return listStr(LunarUtil.GetDayJi(bad, good)) },
			func() string { return listStr(LunarUtil.GetDayYi(good, bad)) }, func() string { return listStr(LunarUtil.GetTimeYi(bad, good)) },
			func() string { return listStr(LunarUtil.GetTimeJi(good, bad)) }, func() string { return listStr(LunarUtil.GetDayJiShen(0, good)) },
			func() string { return listStr(LunarUtil.GetDayXiongSha(13, bad)) }, func() string { return fmt.Sprint(LunarUtil.GetJiaZiIndex(bad)) },
			func() string { return LunarUtil.GetXun(bad) }, func() string { return FotoUtil.GetXiu(13, 31) },
		} {
			parts = append(parts, func() (out string) {
				defer func() {
					if r := recover(); r != nil {
						out = "PANIC"
					}
				}()
				return f()
			}())
		}
		return strings.Join(parts, "|")
	case "AstroDirect": // the exported astronomy routines, called directly between calendar calls
		jd := SolarUtil.GetJulianDay(y, c.B, c.C, 12, 0, 0) - 2451545 + float64(c.H-12)*0.7
		return fmt.Sprintf("%.6f %.6f %.6f %.6f %.6f", ShouXingUtil.CalcQi(jd), ShouXingUtil.CalcShuo(jd), ShouXingUtil.QiAccurate2(jd), ShouXingUtil.DtT(jd), ShouXingUtil.SaLonT(float64(c.H)*0.2617993877991494+float64(y-2000)*6.283185307179586))
	case "CivilUtil": // the exported civil helpers
		y2 := y + []int{0, 1, -1, 4}[ref.Mod(c.H, 4)]
		return fmt.Sprint(SolarUtil.GetDaysBetween(y, c.B, c.C, y2, 1+ref.Mod(c.B+c.H, 12), 1+ref.Mod(c.C+3, 28)), SolarUtil.GetDaysInYear(y, c.B, c.C), SolarUtil.GetWeek(y, c.B, c.C), SolarUtil.GetDaysOfMonth(y, c.B), SolarUtil.GetDaysOfYear(y),
			SolarUtil.IsLeapYear(y), SolarUtil.GetWeeksOfMonth(y, c.B, c.H%7), SolarUtil.IsBefore(y, c.B, c.C, c.H, 0, 0, y2, c.B, c.C, 12, 0, 0))
	case "HugeYear": // the civil side accepts any year: the same month-day a multiple of 2^16 (2^15, 2^8 x 100) years away
		yy := y + []int{65536, -65536, 32768, 131072, 25600, 1 << 32}[ref.Mod(c.H, 6)]
		s := calendar.NewSolar(yy, c.B, c.C, c.H, 0, 0)
		return fmt.Sprintf("%s w%d %v %v %s", s.ToYmdHms(), s.GetWeek(), listStr(s.GetFestivals()), listStr(s.GetOtherFestivals()), s.GetXingZuo())
	case "TwiceInARow": // the same instant converted twice in a row, second answer reported
		s := calendar.NewSolar(y, c.B, c.C, c.H, 7, 5)
		_ = s.GetLunar().String()
		l := s.GetLunar()
		return fmt.Sprintf("%d/%d/%d %d:%d:%d %s %s", l.GetYear(), l.GetMonth(), l.GetDay(), l.GetHour(), l.GetMinute(), l.GetSecond(), l.GetTimeInGanZhi(), l.GetDayInGanZhiExact())
	}
	return "?"
}

func genCall(t *rapid.T, base int) call {
	k := rapid.SampledFrom(callKinds).Draw(t, "kind")
	// year distances: neighbours, the sexagenary cycle, typical cache sizes, and the spans at which 16-bit counters of
	// days / lunations wrap (2^15, 2^16 days = 90, 179 years; 2^15, 2^16 lunations = 2649, 5299 years)
	y := base + rapid.SampledFrom([]int{0, 0, 0, 1, -1, 2, 60, -400, 1000, 64, -64, 128, 90, 179, -179, 2649, -2650, 5298, 5299, -5298, -5299}).Draw(t, "dy")
	if y < 2 {
		y = 2
	}
	if y > 9990 {
		y = 9990
	}
	m := rapid.IntRange(1, 12).Draw(t, "m")
	d := rapid.IntRange(1, 28).Draw(t, "d")
	if y == 1582 && m == 10 && d > 4 && d < 15 {
		d = 20
	}
	return call{Kind: k, A: y, B: m, C: d, H: rapid.IntRange(0, 23).Draw(t, "h")}
}

// ------------------------------------------------------------------------------------------
// 1. histories

type histCase struct {
	Probe   call
	History []call
}

var histories = ev.Register(&ev.P[histCase]{
	Name: "history_independence",
	Rule: "a generated probe call and a generated history (1..30 public calls: conversions for near and far years, year tables, month walks, reverse eight-character look-ups, holiday look-ups, and INVALID constructor calls whose panic is recovered, and calls at/just beyond the year range); oracle: the probe's rendered result (digest of every zero-argument accessor) computed from fresh-cache state (hook VerifResetYearCache) equals the result after the history and again when re-evaluated after every single step; after every step the year-cache mutex must be free (hook, TryLock — no timing involved); non-trivial: the history holds >= 1 cache eviction and >= 1 recovered panic",
	Check: func(c histCase) error {
		calendar.VerifResetYearCache()
		want := run(c.Probe)
		calendar.VerifResetYearCache()
		for i, h := range c.History {
			r1 := run(h)
			if !calendar.VerifYearLockFree() {
				return fmt.Errorf("after history step %d %+v (-> %.60q) the year-cache lock is still held: every later conversion would block forever", i, h, r1)
			}
			if got := run(c.Probe); got != want {
				return fmt.Errorf("probe %+v gives a different result after history step %d %+v:\n fresh: %.300q\n after: %.300q", c.Probe, i, h, want, got)
			}
			if !calendar.VerifYearLockFree() {
				return fmt.Errorf("after the probe following step %d the year-cache lock is still held", i)
			}
			// the history call itself must be reproducible, too
			if r2 := run(h); r2 != r1 {
				return fmt.Errorf("history call %+v gives %.200q then %.200q", h, r1, r2)
			}
		}
		return nil
	},
	Class: func(c histCase) ([]string, bool) {
		evict, rec := 0, 0
		for _, h := range c.History {
			if h.A != c.Probe.A {
				evict++
			}
			if strings.HasPrefix(h.Kind, "Bad") || h.Kind == "EdgeYear" {
				rec++
			}
		}
		var ls []string
		nt := evict > 0 && rec > 0
		if evict > 0 {
			ls = append(ls, "eviction")
		}
		if rec > 0 {
			ls = append(ls, "recoveredPanic")
		}
		if nt {
			ls = append(ls, "evictionAndRecoveredPanic")
		}
		ls = append(ls, "probe:"+c.Probe.Kind)
		return ls, nt
	},
	Require: []string{"evictionAndRecoveredPanic"},
})

// the true fresh-process baseline: package-level state of any kind (not only the year cache the hook resets)
type freshCase struct {
	History []call
	Probe   call
}

type seqOut struct {
	Results []string `json:"results"`
}

// seqChildMain: a child process that runs a list of calls in order from a cold start and prints each result.
func seqChildMain() int {
	var calls []call
	b, err := os.ReadFile(os.Getenv("VERIF_C09_SEQ"))
	if err != nil || json.Unmarshal(b, &calls) != nil {
		fmt.Println("child: cannot read calls:", err)
		return 3
	}
	var out seqOut
	for _, c := range calls {
		out.Results = append(out.Results, run(c))
	}
	j, _ := json.Marshal(out)
	fmt.Println("CHILD-RESULT " + string(j))
	return 0
}

// runInFreshProcess executes the calls in a new process of this same test binary; ok=false means the child
// could not be run (infrastructure, never a verdict).
func runInFreshProcess(calls []call) (res []string, ok bool) {
	exe, err := os.Executable()
	if err != nil {
		ev.Infra("os.Executable: %v", err)
		return nil, false
	}
	f, err := os.CreateTemp(os.Getenv("VERIF_OUT"), "c09seq*.json")
	if err != nil {
		ev.Infra("cannot create child input: %v", err)
		return nil, false
	}
	defer os.Remove(f.Name())
	b, _ := json.Marshal(calls)
	f.Write(b)
	f.Close()
	cmd := exec.Command(exe)
	cmd.Env = append(os.Environ(), "VERIF_C09_SEQ="+f.Name())
	outb, cerr := cmd.CombinedOutput()
	s := string(outb)
	i := strings.Index(s, "CHILD-RESULT ")
	if i < 0 {
		ev.Infra("sequence child produced no result (err=%v): %.300s", cerr, s)
		return nil, false
	}
	line := s[i+len("CHILD-RESULT "):]
	if nl := strings.IndexByte(line, '\n'); nl >= 0 {
		line = line[:nl]
	}
	var so seqOut
	if err := json.Unmarshal([]byte(line), &so); err != nil || len(so.Results) != len(calls) {
		ev.Infra("sequence child result unreadable: %v", err)
		return nil, false
	}
	return so.Results, true
}

func isAncient(c call) bool {
	return c.Kind == "AncientYear" || (c.A < 1700 && c.Kind != "Holiday" && c.Kind != "HolidayViews" && c.Kind != "ReverseBaZi" && c.Kind != "FarYear" && c.Kind != "EdgeYear")
}

var freshProcess = ev.Register(&ev.P[freshCase]{
	Name: "fresh_process_baseline",
	Rule: "a generated probe call and a generated history (1..12 public calls; years from -799 to 9990, with emphasis on the eras whose new moons / terms come from the historical look-up tables); oracle: the probe's rendered result in a NEW PROCESS that makes only this call equals its result in another new process that first runs the history, and equals its result in this (long-running) process — whatever package-level state earlier calls may leave behind, not only the year cache the hook can reset; non-trivial: the history holds a call for another year of the table eras (before 1700) or the probe is such a call",
	Check: func(c freshCase) error {
		alone, ok := runInFreshProcess([]call{c.Probe})
		if !ok {
			return nil
		}
		after, ok := runInFreshProcess(append(append([]call(nil), c.History...), c.Probe))
		if !ok {
			return nil
		}
		if got := after[len(after)-1]; got != alone[0] {
			return fmt.Errorf("probe %+v: a fresh process answers differently after the history %+v:\n alone: %.400q\n after: %.400q", c.Probe, c.History, alone[0], got)
		}
		if got := run(c.Probe); got != alone[0] {
			return fmt.Errorf("probe %+v: this long-running process answers differently from a fresh one:\n fresh: %.400q\n here:  %.400q", c.Probe, alone[0], got)
		}
		return nil
	},
	Class: func(c freshCase) ([]string, bool) {
		ls := []string{"probe:" + c.Probe.Kind}
		nt := isAncient(c.Probe)
		for _, h := range c.History {
			if isAncient(h) && h.A != c.Probe.A {
				nt = true
			}
		}
		if c.Probe.Kind == "AncientYear" {
			ls = append(ls, "ancientProbe")
		}
		if nt {
			ls = append(ls, "tableEras")
		}
		return ls, nt
	},
	Require: []string{"ancientProbe", "tableEras"},
})

// a held object must not change when later calls are made (aliasing of cached tables)
type heldCase struct {
	Y       int
	History []call
}

var heldObjects = ev.Register(&ev.P[heldCase]{
	Name: "held_objects_unchanged",
	Rule: "objects obtained earlier (a LunarYear with its month list and term Julian days, a LunarMonth, a Lunar inside the nines, a Lunar inside the dog days and a Solar) are digested, a generated history of calls for other years runs, then objects DERIVED from the held ones are used freely (Next(0), round trips, the exported view constructors NewEightChar/NewTaoFromLunar/NewFotoFromLunar/NewLunarFromSolar, public setters of returned charts, terms, ShuJiu and Fu objects, stepping calls), and the same objects are digested again; oracle: equal digests (a later call must not write into what an earlier call returned), and digesting the same objects again with the accessors in reverse order gives the same result (accessors are read-only); non-trivial: the history evicts the cached year at least twice",
	Check: func(c heldCase) error {
		calendar.VerifResetYearCache()
		ly := calendar.NewLunarYear(c.Y)
		lm := calendar.NewLunarMonthFromYm(c.Y, 1)
		l := calendar.NewLunarFromYmd(c.Y, 1, 1)
		s := l.GetSolar()
		lf := calendar.NewSolarFromYmd(c.Y, 7, 25).GetLunar() // a day inside the dog days (the New Year date is inside the nines)
		jq := append([]float64(nil), ly.GetJieQiJulianDays()...)
		before := []string{digestString(dig.Of(ly, 1)), digestString(dig.Of(lm, 0)), digestString(dig.Of(l, 1)), digestString(dig.Of(s, 0)), digestString(dig.Of(lf, 1))}
		// read-only accessors: asking everything again in the opposite order changes nothing
		dig.Reverse = true
		rev := []string{digestString(dig.Of(ly, 1)), digestString(dig.Of(lm, 0)), digestString(dig.Of(l, 1)), digestString(dig.Of(s, 0)), digestString(dig.Of(lf, 1))}
		dig.Reverse = false
		for i := range before {
			if before[i] != rev[i] {
				return fmt.Errorf("the %s for year %d answers differently when its accessors are called again in reverse order (an accessor changes the object)", []string{"LunarYear", "LunarMonth", "Lunar", "Solar", "Lunar (July)"}[i], c.Y)
			}
		}
		for _, h := range c.History {
			run(h)
		}
		// setters, stepping and conversions applied to objects DERIVED from the held ones (each derived object is an
		// object of its own: what is done to it is not seen by the one it came from)
		func() {
			defer func() { _ = recover() }()
			for _, o := range []*calendar.Lunar{l.Next(0), l.GetSolar().GetLunar(), l.Next(1).Next(-1), s.GetLunar()} {
				o.GetEightChar().SetSect(1)
				_ = o.GetEightChar().GetYun(1).GetStartSolar()
			}
			for _, o := range []*calendar.Solar{s.NextDay(0), s.NextHour(0), s.Next(0, false), l.GetSolar().NextDay(0), s.NextMonth(0), s.NextYear(0)} {
				_, _, _, _ = o.NextHour(1), o.NextDay(1), o.GetLunar().GetEightChar(), o.ToYmdHms()
				o.GetLunar().GetEightChar().SetSect(1)
			}
			// the exported constructors of views (chart, Taoist/Buddhist date, lunar date of a civil date, term object)
			// build a NEW view each time: the held date keeps its own chart and its switch
			for k := 0; k < 2; k++ {
				ne := calendar.NewEightChar(l)
				ne.SetSect(1)
				_, _, _ = calendar.NewTaoFromLunar(l).GetFestivals(), calendar.NewFotoFromLunar(l).GetFestivals(), calendar.NewLunarFromSolar(s).GetEightChar()
				calendar.NewLunarFromSolar(l.GetSolar()).GetEightChar().SetSect(1)
				_ = calendar.NewJieQi("冬至", s).GetSolar().NextDay(1)
			}
			// objects handed out by accessors are the caller's: their public setters are used on them
			for _, d := range []*calendar.Lunar{l, lf, l.Next(0), lf.GetSolar().GetLunar()} {
				if x := d.GetShuJiu(); x != nil {
					x.SetName("改")
					x.SetIndex(77)
				}
				if x := d.GetFu(); x != nil {
					x.SetName("改")
					x.SetIndex(77)
				}
			}
			if q := l.GetPrevJieQi(); q != nil {
				q.SetName("x")
				q.SetSolar(s.NextDay(3))
			}
			if q := l.GetNextJie(); q != nil {
				q.SetName("y")
			}
			if m2 := lm.Next(0); m2 != nil {
				_, _ = m2.Next(1), m2.GetNineStar()
			}
			_, _ = ly.Next(0).GetMonths(), ly.Next(1)
		}()
		after := []string{digestString(dig.Of(ly, 1)), digestString(dig.Of(lm, 0)), digestString(dig.Of(l, 1)), digestString(dig.Of(s, 0)), digestString(dig.Of(lf, 1))}
		names := []string{"LunarYear", "LunarMonth", "Lunar", "Solar", "Lunar (July)"}
		for i := range before {
			if before[i] != after[i] {
				return fmt.Errorf("the %s obtained for year %d changed after %d later calls (first: %+v)", names[i], c.Y, len(c.History), c.History[0])
			}
		}
		for i, v := range ly.GetJieQiJulianDays() {
			if v != jq[i] {
				return fmt.Errorf("LunarYear(%d).GetJieQiJulianDays()[%d] changed from %.6f to %.6f after later calls", c.Y, i, jq[i], v)
			}
		}
		return nil
	},
	Class: func(c heldCase) ([]string, bool) {
		ev := 0
		for _, h := range c.History {
			if h.A != c.Y {
				ev++
			}
		}
		if ev >= 2 {
			return []string{"twoEvictions"}, true
		}
		return nil, false
	},
	Require: []string{"twoEvictions"},
})

// accessors that take a convention argument (…BySect(int)): their results must not depend on which
// other convention was asked before on the same object
type sectCall struct {
	Method string
	Sect   int
}

type sectCase struct {
	T     ref.DT
	Calls []sectCall
}

var sectMethods = func() []string {
	t := reflect.TypeOf(&calendar.Lunar{})
	var out []string
	for i := 0; i < t.NumMethod(); i++ {
		m := t.Method(i)
		if m.Type.NumIn() == 2 && m.Type.In(1).Kind() == reflect.Int && m.Type.NumOut() == 1 && strings.HasSuffix(m.Name, "BySect") {
			out = append(out, m.Name)
		}
	}
	return out
}()

func callSect(l *calendar.Lunar, method string, sect int) string {
	var out string
	func() {
		defer func() {
			if r := recover(); r != nil {
				out = fmt.Sprintf("PANIC:%v", r)
			}
		}()
		res := reflect.ValueOf(l).MethodByName(method).Call([]reflect.Value{reflect.ValueOf(sect)})
		tmp := map[string]string{}
		out = dig.Render(res[0], method, tmp)
		if ns, ok := res[0].Interface().(*calendar.NineStar); ok && ns != nil {
			out += fmt.Sprintf("#%d", ns.GetIndex())
		}
	}()
	return out
}

var sectHistory = ev.Register(&ev.P[sectCase]{
	Name: "convention_argument_accessors_history_free",
	Rule: "a generated moment (emphasis: between lunar New Year and Lichun, Jie days before the instant, 23:xx) and a generated sequence of calls to the lunar date's accessors that take a convention argument (all methods named …BySect(int), discovered by reflection, sect 1..3) — plus zero-argument defaults in between; oracle: every call on the ONE reused object returns what the same call returns on a fresh object built for the same moment (a memo keyed on too little, or invalidated by the wrong call, shows as a difference); non-trivial: the sequence asks one accessor under >= 2 conventions with another accessor in between",
	Check: func(c sectCase) error {
		reused := gen.Solar(c.T).GetLunar()
		for i, k := range c.Calls {
			var want, got string
			if k.Sect == 0 { // the zero-argument default of the same accessor family
				name := strings.TrimSuffix(k.Method, "BySect")
				fresh := gen.Solar(c.T).GetLunar()
				if !reflect.ValueOf(fresh).MethodByName(name).IsValid() {
					continue
				}
				want, got = burst(fresh, []string{name}, 0), burst(reused, []string{name}, 0)
			} else {
				want, got = callSect(gen.Solar(c.T).GetLunar(), k.Method, k.Sect), callSect(reused, k.Method, k.Sect)
			}
			if want != got {
				return fmt.Errorf("%v: call %d %s(%d) on a reused Lunar returns %.200q, a fresh object returns %.200q (earlier calls on the object: %v)", c.T, i, k.Method, k.Sect, got, want, c.Calls[:i])
			}
		}
		return nil
	},
	Class: func(c sectCase) ([]string, bool) {
		seen := map[string]map[int]bool{}
		nt := false
		last := ""
		for _, k := range c.Calls {
			if seen[k.Method] == nil {
				seen[k.Method] = map[int]bool{}
			}
			if len(seen[k.Method]) >= 1 && !seen[k.Method][k.Sect] && last != k.Method {
				nt = true
			}
			seen[k.Method][k.Sect] = true
			last = k.Method
		}
		l := gen.Solar(c.T).GetLunar()
		var ls []string
		if l.GetYearZhiIndex() != l.GetYearZhiIndexByLiChun() {
			ls = append(ls, "betweenNewYearAndLichun")
		}
		if l.GetMonthInGanZhi() != l.GetMonthInGanZhiExact() {
			ls = append(ls, "jieDayBeforeInstant")
		}
		return ls, nt
	},
	Require: []string{"betweenNewYearAndLichun", "jieDayBeforeInstant"},
})

// ------------------------------------------------------------------------------------------
// 1c. one object, its methods in different orders: what a method returns depends on the receiver's
// construction arguments and the method's own arguments only, not on which other methods ran before

type mcall struct {
	Method string
	Args   []int // int arguments as they are, bool arguments as 0/1
}

type orderCase struct {
	Kind   string
	T      ref.DT
	P1, P2 int     // further construction parameters (gender / sect / first weekday / index)
	Calls  []mcall // executed in this order on twin A
	Perm   []int   // twin B executes Calls[Perm[0]], Calls[Perm[1]], ...
}

var objKinds = []string{"Solar", "Lunar", "LunarNew", "EightChar", "Yun", "DaYun", "LiuNian", "LunarYear", "LunarMonth", "LunarTime", "SolarWeek", "SolarMonth", "SolarSeason", "SolarHalfYear", "SolarYear", "Tao", "Foto", "NineStar", "JieQi"}

// buildObj constructs the object of a case from scratch (the lunar-year cache is emptied first so that
// cached tables are rebuilt, too).
func buildObj(c orderCase) interface{} {
	calendar.VerifResetYearCache()
	s := gen.Solar(c.T)
	l := s.GetLunar()
	switch c.Kind {
	case "Solar":
		return s
	case "Lunar":
		return l
	case "LunarNew":
		return calendar.NewLunar(l.GetYear(), l.GetMonth(), l.GetDay(), c.T.H, c.T.Mi, c.T.S)
	case "EightChar":
		ec := l.GetEightChar()
		ec.SetSect(1 + c.P1%2)
		return ec
	case "Yun":
		return l.GetEightChar().GetYunBySect(c.P1%2, 1+c.P2%2)
	case "DaYun":
		return l.GetEightChar().GetYunBySect(c.P1%2, 1+c.P2%2).GetDaYun()[c.P2%10]
	case "LiuNian":
		return l.GetEightChar().GetYunBySect(c.P1%2, 1+c.P2%2).GetDaYun()[1+c.P2%9].GetLiuNian()[c.P1%10]
	case "LunarYear":
		return calendar.NewLunarYear(l.GetYear())
	case "LunarMonth":
		return calendar.NewLunarMonthFromYm(l.GetYear(), l.GetMonth())
	case "LunarTime":
		return l.GetTime()
	case "SolarWeek":
		return calendar.NewSolarWeekFromYmd(c.T.Y, c.T.M, c.T.D, c.P1%7)
	case "SolarMonth":
		return calendar.NewSolarMonthFromYm(c.T.Y, c.T.M)
	case "SolarSeason":
		return calendar.NewSolarSeasonFromYm(c.T.Y, c.T.M)
	case "SolarHalfYear":
		return calendar.NewSolarHalfYearFromYm(c.T.Y, c.T.M)
	case "SolarYear":
		return calendar.NewSolarYearFromYear(c.T.Y)
	case "Tao":
		return l.GetTao()
	case "Foto":
		return l.GetFoto()
	case "NineStar":
		return l.GetDayNineStar()
	case "JieQi":
		return l.GetPrevJieQi()
	}
	return s
}

type methodSig struct {
	Name string
	In   []reflect.Kind
}

var methodPool = map[string][]methodSig{}

// methodsOf lists the exported non-setter methods whose parameters are all int or bool and that return something.
func methodsOf(kind string, obj interface{}) []methodSig {
	if ms, ok := methodPool[kind]; ok {
		return ms
	}
	var out []methodSig
	t := reflect.TypeOf(obj)
	for i := 0; i < t.NumMethod(); i++ {
		m := t.Method(i)
		if strings.HasPrefix(m.Name, "Set") || strings.HasPrefix(m.Name, "Verif") || m.Type.NumOut() == 0 {
			continue
		}
		ok := true
		var in []reflect.Kind
		for k := 1; k < m.Type.NumIn(); k++ {
			kd := m.Type.In(k).Kind()
			if kd != reflect.Int && kd != reflect.Bool {
				ok = false
			}
			in = append(in, kd)
		}
		if ok {
			out = append(out, methodSig{m.Name, in})
		}
	}
	methodPool[kind] = out
	return out
}

func argPool(method string, k reflect.Kind) []int {
	switch {
	case k == reflect.Bool:
		return []int{0, 1}
	case strings.Contains(method, "Sect") || method == "GetYun":
		return []int{1, 2, 3, 1, 2, 3, 0, 4}
	case strings.HasPrefix(method, "Next"):
		return []int{-104, -53, -52, -13, -2, -1, 0, 0, 1, 2, 12, 13, 52, 53, 104}
	case method == "GetWeeks":
		return []int{0, 1, 2, 3, 4, 5, 6}
	case strings.HasSuffix(method, "By"):
		return []int{0, 1, 2, 5, 9, 10, 11, 13}
	case method == "GetMonth":
		return []int{-12, -6, -4, -1, 1, 2, 6, 11, 12, 13}
	}
	return []int{-1, 0, 1, 2, 3, 5, 7, 12}
}

// renderResult renders what a method returned: library objects by the digest of their own accessors, containers
// element-wise (first two and last element of a container of library objects digested, the others by their printed form).
func renderResult(v reflect.Value) string {
	if !v.IsValid() {
		return "<invalid>"
	}
	isObj := func(x reflect.Value) bool {
		return x.Kind() == reflect.Ptr && !x.IsNil() && x.Elem().Kind() == reflect.Struct && strings.Contains(x.Elem().Type().PkgPath(), "lunar-go")
	}
	if isObj(v) {
		return digestString(dig.Of(v.Interface(), 0))
	}
	var elems []reflect.Value
	if l, ok := v.Interface().(*list.List); ok && l != nil {
		for e := l.Front(); e != nil; e = e.Next() {
			elems = append(elems, reflect.ValueOf(e.Value))
		}
	} else if v.Kind() == reflect.Slice {
		for i := 0; i < v.Len(); i++ {
			elems = append(elems, v.Index(i))
		}
	} else {
		return dig.Render(v, "r", map[string]string{})
	}
	var sb strings.Builder
	fmt.Fprintf(&sb, "%d[", len(elems))
	for i, e := range elems {
		if isObj(e) && (i < 2 || i == len(elems)-1) {
			sb.WriteString(digestString(dig.Of(e.Interface(), 0)))
		} else {
			sb.WriteString(dig.Render(e, "e", map[string]string{}))
		}
		sb.WriteByte(';')
	}
	sb.WriteByte(']')
	return sb.String()
}

func invoke(obj interface{}, c mcall) (out string) {
	defer func() {
		if r := recover(); r != nil {
			out = fmt.Sprintf("PANIC:%v", r)
		}
	}()
	m := reflect.ValueOf(obj).MethodByName(c.Method)
	if !m.IsValid() {
		return "no such method"
	}
	var in []reflect.Value
	for k, a := range c.Args {
		if m.Type().In(k).Kind() == reflect.Bool {
			in = append(in, reflect.ValueOf(a != 0))
		} else {
			in = append(in, reflect.ValueOf(a))
		}
	}
	return renderResult(m.Call(in)[0])
}

var methodOrder = ev.Register(&ev.P[orderCase]{
	Name: "method_order_independence",
	Rule: "a generated object of every library type (civil date, lunar date by both routes, eight characters, fortune objects, lunar year/month/hour, civil week/month/season/half-year/year, Taoist/Buddhist date, nine star, term) and a generated list of 1..24 calls to its exported non-setter methods with int/bool arguments (discovered by reflection; convention arguments, whole-day flags, first weekdays, step counts incl. 0, ±52, ±53) — oracle: each call returns the same rendered result (library objects by the digest of all their accessors) (a) on a fresh object that receives only this call, (b) on ONE object that receives the whole list in order, (c) on another object that receives the list in a generated permutation: a lazily filled field, a memo keyed on too little, a stepping method that writes to its receiver, or an accessor that edits a shared table shows as a difference; non-trivial: >= 3 distinct methods and >= 1 call with arguments",
	Check: func(c orderCase) error {
		a, b := buildObj(c), buildObj(c)
		if a == nil || (reflect.ValueOf(a).Kind() == reflect.Ptr && reflect.ValueOf(a).IsNil()) {
			return nil
		}
		resA := make([]string, len(c.Calls))
		for i, k := range c.Calls {
			resA[i] = invoke(a, k)
		}
		resB := make([]string, len(c.Calls))
		for _, i := range c.Perm {
			resB[i] = invoke(b, c.Calls[i])
		}
		for i, k := range c.Calls {
			fresh := invoke(buildObj(c), k)
			if resA[i] != fresh {
				return fmt.Errorf("%s built for %v (%d,%d): call %d %s%v returns a different result after the calls %v than on a fresh object\n fresh:  %.500q\n reused: %.500q", c.Kind, c.T, c.P1, c.P2, i, k.Method, k.Args, c.Calls[:i], diffHint(fresh, resA[i]), diffHint(resA[i], fresh))
			}
			if resB[i] != fresh {
				var before []mcall
				for _, j := range c.Perm {
					if j == i {
						break
					}
					before = append(before, c.Calls[j])
				}
				return fmt.Errorf("%s built for %v (%d,%d): call %s%v returns a different result after the calls %v than on a fresh object\n fresh:  %.500q\n reused: %.500q", c.Kind, c.T, c.P1, c.P2, k.Method, k.Args, before, diffHint(fresh, resB[i]), diffHint(resB[i], fresh))
			}
		}
		return nil
	},
	Class: func(c orderCase) ([]string, bool) {
		names := map[string]bool{}
		withArgs := false
		for _, k := range c.Calls {
			names[k.Method] = true
			if len(k.Args) > 0 {
				withArgs = true
			}
		}
		return []string{"obj:" + c.Kind}, len(names) >= 3 && withArgs
	},
	Require: []string{"obj:Lunar", "obj:Solar", "obj:Yun", "obj:LunarYear", "obj:SolarWeek", "obj:SolarMonth", "obj:EightChar", "obj:LunarTime"},
})

// firstRead digests the shared objects of one kind through all their accessors.
func firstRead(kind int, s *calendar.Solar, l *calendar.Lunar, ly *calendar.LunarYear, lm *calendar.LunarMonth, extra []interface{}) string {
	switch kind {
	case 0:
		return digestString(dig.Of(s, 0))
	case 1:
		return digestString(dig.Of(lm, 0)) + digestString(dig.Of(ly, 0))
	case 2:
		return digestString(dig.Of(extra[0], 0)) + digestString(dig.Of(extra[1], 0)) + digestString(dig.Of(extra[2], 0)) + digestString(dig.Of(extra[3], 0)) + digestString(dig.Of(extra[4], 0))
	case 3:
		return digestString(dig.Of(extra[5], 0)) + digestString(dig.Of(extra[6], 0))
	}
	return digestString(dig.Of(extra[7], 0)) + digestString(dig.Of(extra[8], 0))
}

// lineDiff names the first digest lines that differ.
func lineDiff(a, b string) string {
	x, y := strings.Split(a, "\n"), strings.Split(b, "\n")
	for i := range x {
		if i >= len(y) || x[i] != y[i] {
			if i < len(y) {
				return fmt.Sprintf("%.200q vs %.200q", x[i], y[i])
			}
			return fmt.Sprintf("%.200q vs <missing>", x[i])
		}
	}
	return "lengths differ"
}

// diffHint returns the lines of x that do not occur in y (digests are line-per-accessor), or x itself.
func diffHint(x, y string) string {
	if !strings.Contains(x, "\n") {
		return x
	}
	have := map[string]bool{}
	for _, l := range strings.Split(y, "\n") {
		have[l] = true
	}
	var out []string
	for _, l := range strings.Split(x, "\n") {
		if !have[l] {
			out = append(out, l)
		}
	}
	return strings.Join(out, " | ")
}

func genOrder(t *rapid.T) orderCase {
	c := orderCase{Kind: rapid.SampledFrom(objKinds).Draw(t, "kind"), T: gen.Moment(t), P1: rapid.IntRange(0, 13).Draw(t, "p1"), P2: rapid.IntRange(0, 19).Draw(t, "p2")}
	if rapid.IntRange(0, 3).Draw(t, "late") == 0 {
		c.T.H = 23
	}
	obj := buildObj(c)
	if obj == nil || (reflect.ValueOf(obj).Kind() == reflect.Ptr && reflect.ValueOf(obj).IsNil()) {
		c.Kind = "Lunar"
		obj = buildObj(c)
	}
	ms := methodsOf(c.Kind, obj)
	var withArgs []methodSig
	for _, m := range ms {
		if len(m.In) > 0 {
			withArgs = append(withArgs, m)
		}
	}
	n := rapid.IntRange(1, 24).Draw(t, "ncalls")
	for i := 0; i < n; i++ {
		pool := ms
		if len(withArgs) > 0 && rapid.IntRange(0, 2).Draw(t, "argful") > 0 { // methods with arguments are few among hundreds: weight them
			pool = withArgs
		}
		m := pool[rapid.IntRange(0, len(pool)-1).Draw(t, "m")]
		k := mcall{Method: m.Name}
		for _, kd := range m.In {
			k.Args = append(k.Args, rapid.SampledFrom(argPool(m.Name, kd)).Draw(t, "arg"))
		}
		c.Calls = append(c.Calls, k)
	}
	c.Perm = rapid.Permutation(seqInts(n)).Draw(t, "perm")
	return c
}

func seqInts(n int) []int {
	out := make([]int, n)
	for i := range out {
		out[i] = i
	}
	return out
}

// ------------------------------------------------------------------------------------------
// 2. concurrent programs

type concCase struct {
	Procs   int      // GOMAXPROCS
	Shared  int      // year of the shared objects
	SharedT ref.DT   // moment of the shared Lunar
	Progs   [][]call // one call list per goroutine
	Burst   []string // zero-argument Lunar accessors every goroutine calls first on a fresh shared Lunar
}

// lunarAccessors lists the exported zero-argument methods of *Lunar (discovered by reflection).
var lunarAccessors = func() []string {
	t := reflect.TypeOf(&calendar.Lunar{})
	var out []string
	for i := 0; i < t.NumMethod(); i++ {
		m := t.Method(i)
		if m.Type.NumIn() == 1 && m.Type.NumOut() >= 1 {
			out = append(out, m.Name)
		}
	}
	return out
}()

// burst calls the named accessors directly, with no other library call in between, so that two
// goroutines doing this on one fresh object are not accidentally ordered by the year-cache mutex.
func burst(l *calendar.Lunar, names []string, rot int) string {
	v := reflect.ValueOf(l)
	var sb strings.Builder
	for i := range names {
		n := names[(i+rot)%len(names)]
		func() {
			defer func() {
				if r := recover(); r != nil {
					fmt.Fprintf(&sb, "%s=PANIC:%v;", n, r)
				}
			}()
			res := v.MethodByName(n).Call(nil)
			out := map[string]string{}
			d := dig.Render(res[0], n, out)
			fmt.Fprintf(&sb, "%s=%s;", n, d)
		}()
	}
	return sb.String()
}

func sortedBurst(s string) string {
	parts := strings.Split(s, ";")
	sort.Strings(parts)
	return strings.Join(parts, ";")
}

// sharedReads are read-only accessor bursts on objects shared by all goroutines.
func sharedReads(l *calendar.Lunar, s *calendar.Solar, ly *calendar.LunarYear, lm *calendar.LunarMonth) string {
	var sb strings.Builder
	sb.WriteString(digestString(dig.Of(l, 1)))
	sb.WriteString(digestString(dig.Of(s, 0)))
	sb.WriteString(digestString(dig.Of(ly, 0)))
	sb.WriteString(digestString(dig.Of(lm, 0)))
	return sb.String()
}

func runConcurrent(c concCase) error {
	old := runtime.GOMAXPROCS(c.Procs)
	defer runtime.GOMAXPROCS(old)
	// sequential reference
	calendar.VerifResetYearCache()
	want := make([][]string, len(c.Progs))
	for g, p := range c.Progs {
		for _, x := range p {
			want[g] = append(want[g], run(x))
		}
	}
	mk := func() (*calendar.Lunar, *calendar.Solar, *calendar.LunarYear, *calendar.LunarMonth) {
		s := gen.Solar(c.SharedT)
		return s.GetLunar(), s, calendar.NewLunarYear(c.Shared), calendar.NewLunarMonthFromYm(c.Shared, 1)
	}
	rl, rs, rly, rlm := mk()
	wantShared := sharedReads(rl, rs, rly, rlm)
	wantBurst := ""
	if len(c.Burst) > 0 {
		wantBurst = sortedBurst(burst(rl, c.Burst, 0))
	}
	// concurrent run on FRESH shared objects (first-use lazy paths are part of the test)
	l, s, ly, lm := mk()
	calendar.VerifResetYearCache()
	got := make([][]string, len(c.Progs))
	gotShared := make([]string, len(c.Progs))
	gotBurst := make([]string, len(c.Progs))
	gotFirst := make([]string, len(c.Progs))
	// which shared object every goroutine reads first rotates with the case: the civil date, the lunar month and year, the
	// civil year/month/week objects, the Buddhist and Taoist dates, the chart and hour object
	firstKind := (c.Shared + len(c.Progs) + c.SharedT.M) % 5
	mkExtra := func(l0 *calendar.Lunar) []interface{} {
		return []interface{}{calendar.NewSolarYearFromYear(c.SharedT.Y), calendar.NewSolarMonthFromYm(c.SharedT.Y, c.SharedT.M), calendar.NewSolarWeekFromYmd(c.SharedT.Y, c.SharedT.M, c.SharedT.D, 1),
			calendar.NewSolarSeasonFromYm(c.SharedT.Y, c.SharedT.M), calendar.NewSolarHalfYearFromYm(c.SharedT.Y, c.SharedT.M), l0.GetFoto(), l0.GetTao(), l0.GetEightChar(), l0.GetTime()}
	}
	wantFirst := firstRead(firstKind, rs, rl, rly, rlm, mkExtra(rl))
	extra := mkExtra(l)
	var firstObjs []interface{}
	switch firstKind {
	case 0:
		firstObjs = []interface{}{s}
	case 1:
		firstObjs = []interface{}{lm, ly}
	case 2:
		firstObjs = extra[0:5]
	case 3:
		firstObjs = extra[5:7]
	default:
		firstObjs = extra[7:9]
	}
	var firstCalls []reflect.Value
	for _, o := range firstObjs {
		v := reflect.ValueOf(o)
		for i := 0; i < v.NumMethod(); i++ {
			if mt := v.Type().Method(i); mt.Type.NumIn() == 1 && mt.Type.NumOut() > 0 && !strings.HasPrefix(mt.Name, "Set") {
				firstCalls = append(firstCalls, v.Method(i))
			}
		}
	}
	var wg sync.WaitGroup
	start := make(chan struct{})
	for g := range c.Progs {
		wg.Add(1)
		go func(g int) {
			defer wg.Done()
			<-start
			// every goroutine's first act is to read the shared civil date (alternately the shared year / month) through
			// all its accessors: first uses of a shared object coincide
			// first, the accessors of the chosen shared objects back to back through method values resolved before the
			// goroutines started (nothing between two calls that would order the goroutines: the race detector sees an
			// unsynchronised lazy field however the calls interleave), then the digest for the values
			for k := range firstCalls {
				func() {
					defer func() { _ = recover() }()
					firstCalls[(k+g)%len(firstCalls)].Call(nil)
				}()
			}
			gotFirst[g] = firstRead(firstKind, s, l, ly, lm, extra)
			if len(c.Burst) > 0 {
				gotBurst[g] = sortedBurst(burst(l, c.Burst, g))
			}
			for i, x := range c.Progs[g] {
				got[g] = append(got[g], run(x))
				if i%3 == 0 {
					runtime.Gosched()
				}
				if i == len(c.Progs[g])/2 {
					gotShared[g] = sharedReads(l, s, ly, lm)
				}
			}
		}(g)
	}
	close(start)
	wg.Wait()
	for g := range c.Progs {
		for i := range c.Progs[g] {
			if got[g][i] != want[g][i] {
				return fmt.Errorf("goroutine %d call %d %+v: concurrent result differs from sequential\n seq: %.300q\n con: %.300q", g, i, c.Progs[g][i], want[g][i], got[g][i])
			}
		}
		if gotFirst[g] != wantFirst {
			return fmt.Errorf("goroutine %d: its first reading of the shared objects of kind %d (moment %v, all accessors, all goroutines at once) differs from the sequential reference: %s", g, firstKind, c.SharedT, lineDiff(wantFirst, gotFirst[g]))
		}
		if gotBurst[g] != wantBurst {
			return fmt.Errorf("goroutine %d: accessor burst %v on the shared Lunar (moment %v) differs from the sequential reference\n seq: %.300q\n con: %.300q", g, c.Burst, c.SharedT, wantBurst, gotBurst[g])
		}
		if gotShared[g] != wantShared {
			return fmt.Errorf("goroutine %d: read-only accessors on the shared objects (moment %v) differ from the sequential reference", g, c.SharedT)
		}
	}
	if !calendar.VerifYearLockFree() {
		return fmt.Errorf("the year-cache lock is held after all goroutines finished")
	}
	return nil
}

var concurrent = ev.Register(&ev.P[concCase]{
	Name:  "concurrent_equals_sequential",
	Rule:  "generated concurrent programs: 2..16 goroutines, each a generated list of calls over overlapping years (the one-slot cache thrashes), with read-only accessor bursts on a Lunar/Solar/LunarYear/LunarMonth shared by all goroutines (first-use lazy paths included), GOMAXPROCS in {1,2,16}, Gosched sprinkled; oracle: every goroutine's results equal the sequential reference and the lock is free afterwards; the same generated programs are re-run by a child process built with -race, which must report no data race, and a child that dies with the runtime's 'all goroutines are asleep' is a violation (a child timeout is inconclusive, never a violation); a third of the programs are 'mirror' programs — every goroutine runs the SAME short call list of one kind over years that differ by typical cache strides (16, 32, 60, 64, 128, 256), the shape that exposes a check-then-act cache which is free of data races yet hands one caller another caller's entry; non-trivial: >= 2 goroutines touch different years",
	Check: runConcurrent,
	Class: func(c concCase) ([]string, bool) {
		ys := map[int]bool{}
		for _, p := range c.Progs {
			for _, x := range p {
				ys[x.A] = true
			}
		}
		ls := []string{fmt.Sprintf("procs:%d", c.Procs)}
		if len(c.Progs) >= 2 && reflect.DeepEqual(c.Progs[0], c.Progs[1]) {
			ls = append(ls, "mirror")
		}
		if len(ys) >= 2 && len(c.Progs) >= 2 {
			return append(ls, "thrash"), true
		}
		return ls, false
	},
	Require: []string{"thrash", "procs:1", "procs:16", "mirror"},
})

func genConc(t *rapid.T) concCase {
	base := gen.Year(t, 3, 9990)
	g := rapid.IntRange(2, 16).Draw(t, "goroutines")
	c := concCase{Procs: rapid.SampledFrom([]int{1, 2, 16}).Draw(t, "procs"), Shared: base}
	c.SharedT = ref.DT{Y: base, M: rapid.IntRange(1, 12).Draw(t, "sm"), D: rapid.IntRange(1, 28).Draw(t, "sd"), H: rapid.SampledFrom([]int{0, 12, 23}).Draw(t, "sh")}
	if base == 1582 && c.SharedT.M == 10 {
		c.SharedT.D = 20
	}
	nb := rapid.IntRange(0, 4).Draw(t, "burstLen")
	for i := 0; i < nb; i++ {
		c.Burst = append(c.Burst, rapid.SampledFrom(lunarAccessors).Draw(t, "burst"))
	}
	if rapid.IntRange(0, 3).Draw(t, "lazyFirst") == 0 {
		c.Burst = append([]string{"GetEightChar"}, c.Burst...)
	}
	if rapid.IntRange(0, 2).Draw(t, "mirror") == 0 {
		// every goroutine runs the same short program of one kind, years a cache stride apart
		kind := rapid.SampledFrom([]string{"ReverseBaZi", "SolarToLunar", "LunarYearTable", "TermTable", "Fortune", "NewLunar", "LunarMonthNext", "EightCharFull"}).Draw(t, "mirrorKind")
		n := rapid.IntRange(2, 5).Draw(t, "len")
		var p []call
		for k := 0; k < n; k++ {
			x := genCall(t, base)
			x.Kind = kind
			x.A = base + rapid.SampledFrom([]int{0, 64, -64, 60, 128, 32, 16, 256, 0, 64}).Draw(t, "stride")
			if x.A < 2 {
				x.A = 2
			}
			if x.A > 9990 {
				x.A = 9990
			}
			p = append(p, x)
		}
		if g < 4 {
			g = 4 + g
		}
		for i := 0; i < g; i++ {
			c.Progs = append(c.Progs, append([]call(nil), p...))
		}
		return c
	}
	for i := 0; i < g; i++ {
		n := rapid.IntRange(1, 12).Draw(t, "len")
		var p []call
		for k := 0; k < n; k++ {
			x := genCall(t, base)
			p = append(p, x)
		}
		c.Progs = append(c.Progs, p)
	}
	return c
}

// ------------------------------------------------------------------------------------------
// child process (built with -race): re-runs generated concurrent programs, no timers

type childOut struct {
	Programs int    `json:"programs"`
	Failed   string `json:"failed,omitempty"`
}

func childMain() int {
	var cases []concCase
	b, err := os.ReadFile(os.Getenv("VERIF_C09_CHILD"))
	if err != nil {
		fmt.Println("child: cannot read cases:", err)
		return 3
	}
	if err := json.Unmarshal(b, &cases); err != nil {
		fmt.Println("child: bad cases:", err)
		return 3
	}
	out := childOut{}
	if os.Getenv("VERIF_C09_COLD") != "" && len(cases) > 0 {
		// cold start: the very first use of the library in this process is concurrent (no sequential warm-up);
		// the sequential reference is computed afterwards
		c := cases[0]
		got := make([][]string, len(c.Progs))
		var wg sync.WaitGroup
		start := make(chan struct{})
		for g := range c.Progs {
			wg.Add(1)
			go func(g int) {
				defer wg.Done()
				<-start
				for _, x := range c.Progs[g] {
					got[g] = append(got[g], run(x))
				}
			}(g)
		}
		close(start)
		wg.Wait()
		for g := range c.Progs {
			for i, x := range c.Progs[g] {
				if want := run(x); want != got[g][i] {
					out.Failed = fmt.Sprintf("cold start: goroutine %d call %d %+v: first-use concurrent result differs from the sequential one\n seq: %.300q\n con: %.300q", g, i, x, want, got[g][i])
				}
			}
		}
		out.Programs++
		cases = cases[1:]
	}
	for _, c := range cases {
		if out.Failed != "" {
			break
		}
		out.Programs++
		if err := runConcurrent(c); err != nil {
			out.Failed = err.Error()
			break
		}
	}
	j, _ := json.Marshal(out)
	fmt.Println("CHILD-RESULT " + string(j))
	return 0
}

type raceCase struct {
	Cases []concCase
	Cold  bool // the child's first use of the library is concurrent (first case), no warm-up
}

var raceFree = ev.Register(&ev.P[raceCase]{
	Name: "race_detector_and_deadlock",
	Rule: "batches of generated concurrent programs executed by a child process built with the Go race detector (happens-before detection needs both accesses to execute unordered, not the bad interleaving to occur); oracle: the child reports no DATA RACE, does not die with 'all goroutines are asleep - deadlock', and its results equal the sequential reference; non-trivial: every batch (each holds >= 2 goroutines on shared objects); distinct = batch content",
	Check: func(c raceCase) error {
		bin := os.Getenv("VERIF_RACEBIN")
		if bin == "" {
			return nil
		}
		f, err := os.CreateTemp(os.Getenv("VERIF_OUT"), "c09child*.json")
		if err != nil {
			ev.Infra("cannot create child input: %v", err)
			return nil
		}
		defer os.Remove(f.Name())
		b, _ := json.Marshal(c.Cases)
		f.Write(b)
		f.Close()
		cmd := exec.Command(bin)
		cmd.Env = append(os.Environ(), "VERIF_C09_CHILD="+f.Name(), "GORACE=halt_on_error=0 exitcode=66")
		if c.Cold {
			cmd.Env = append(cmd.Env, "VERIF_C09_COLD=1")
		}
		done := make(chan struct{})
		var out []byte
		var cerr error
		go func() { out, cerr = cmd.CombinedOutput(); close(done) }()
		select {
		case <-done:
		case <-time.After(20 * time.Minute):
			_ = cmd.Process.Kill()
			<-done
			ev.Infra("race child exceeded 20 min (inconclusive)")
			return nil
		}
		s := string(out)
		if strings.Contains(s, "DATA RACE") {
			i := strings.Index(s, "WARNING: DATA RACE")
			frag := s[i:]
			if len(frag) > 1800 {
				frag = frag[:1800]
			}
			return fmt.Errorf("the race detector reports a data race in library code:\n%s", frag)
		}
		if strings.Contains(s, "concurrent map") {
			i := strings.Index(s, "fatal error")
			return fmt.Errorf("the child died inside the library: %.500s", s[i:])
		}
		if strings.Contains(s, "all goroutines are asleep") {
			return fmt.Errorf("the child deadlocked (Go runtime: all goroutines are asleep): %.600s", s)
		}
		i := strings.Index(s, "CHILD-RESULT ")
		if i < 0 {
			ev.Infra("race child produced no result (err=%v): %.400s", cerr, s)
			return nil
		}
		var co childOut
		line := s[i+len("CHILD-RESULT "):]
		if nl := strings.IndexByte(line, '\n'); nl >= 0 {
			line = line[:nl]
		}
		if err := json.Unmarshal([]byte(line), &co); err != nil {
			ev.Infra("race child result unreadable: %v", err)
			return nil
		}
		if co.Failed != "" {
			return fmt.Errorf("under -race: %s", co.Failed)
		}
		return nil
	},
	Class: func(c raceCase) ([]string, bool) {
		if c.Cold {
			return []string{"batch", "coldStart"}, true
		}
		return []string{"batch"}, true
	},
	Require: []string{"coldStart"},
})

// ------------------------------------------------------------------------------------------
// held objects re-read under churn: the hit path of anything memoised outside the object

type heldDay struct {
	Y, M, D int
	Class   string // how the generator chose the day
}

type hotCase struct {
	Procs  int
	Days   []heldDay // one held Lunar per entry, built before the goroutines start
	Extra  []string  // further zero-argument Lunar accessors re-read besides the conditional ones
	G      int       // goroutines re-reading the held objects
	Rounds int       // per goroutine: rounds of Reps back-to-back re-reads of one accessor of one object, then the next accessor on the next object
	First  int       // accessor of round 0
	Reps   int
	Churn  [][]call // further goroutines running generated calls (they evict the year cache) until the readers finish
}

// conditionalAccessors answer "nothing" on most days and something on the days the seasonal rules single out; they
// are the reads whose value depends on more than the object's own date fields (term table, stems, year ends)
var conditionalAccessors = []string{"GetFestivals", "GetOtherFestivals", "GetJieQi", "GetJie", "GetQi", "GetShuJiu", "GetFu", "GetHou", "GetWuHou", "GetYearInGanZhiByLiChun", "GetMonthInGanZhiExact", "GetYueXiang", "GetLiuYao"}

// the same accessors as direct calls (no reflection between two reads: more re-reads per second, nothing that orders the goroutines)
var conditionalReads = []func(l *calendar.Lunar) string{
	func(l *calendar.Lunar) string { return listStr(l.GetFestivals()) },
	func(l *calendar.Lunar) string { return listStr(l.GetOtherFestivals()) },
	func(l *calendar.Lunar) string { return l.GetJieQi() },
	func(l *calendar.Lunar) string { return l.GetJie() },
	func(l *calendar.Lunar) string { return l.GetQi() },
	func(l *calendar.Lunar) string {
		if x := l.GetShuJiu(); x != nil {
			return x.ToFullString()
		}
		return "nil"
	},
	func(l *calendar.Lunar) string {
		if x := l.GetFu(); x != nil {
			return x.ToFullString()
		}
		return "nil"
	},
	func(l *calendar.Lunar) string { return l.GetHou() },
	func(l *calendar.Lunar) string { return l.GetWuHou() },
	func(l *calendar.Lunar) string { return l.GetYearInGanZhiByLiChun() },
	func(l *calendar.Lunar) string { return l.GetMonthInGanZhiExact() },
	func(l *calendar.Lunar) string { return l.GetYueXiang() },
	func(l *calendar.Lunar) string { return l.GetLiuYao() },
}

func safeRead(f func(l *calendar.Lunar) string, l *calendar.Lunar) (out string) {
	defer func() {
		if r := recover(); r != nil {
			out = fmt.Sprintf("PANIC:%v", r)
		}
	}()
	return f(l)
}

func renderCall(m reflect.Value, name string) (out string) {
	defer func() {
		if r := recover(); r != nil {
			out = fmt.Sprintf("PANIC:%v", r)
		}
	}()
	res := m.Call(nil)
	return dig.Render(res[0], name, map[string]string{})
}

func runHot(c hotCase) error {
	old := runtime.GOMAXPROCS(c.Procs)
	defer runtime.GOMAXPROCS(old)
	calendar.VerifResetYearCache()
	names := append(append([]string(nil), conditionalAccessors...), c.Extra...)
	type held struct {
		l     *calendar.Lunar
		calls []reflect.Value // the generated extra accessors (reflective)
		want  []string
	}
	objs := make([]held, len(c.Days))
	for i, d := range c.Days {
		l := calendar.NewSolarFromYmd(d.Y, d.M, d.D).GetLunar()
		objs[i].l = l
		v := reflect.ValueOf(l)
		for _, n := range c.Extra {
			objs[i].calls = append(objs[i].calls, v.MethodByName(n))
		}
		// sequential reference: a second object for the same day, read once, nobody else running
		rl := calendar.NewSolarFromYmd(d.Y, d.M, d.D).GetLunar()
		rv := reflect.ValueOf(rl)
		for _, f := range conditionalReads {
			objs[i].want = append(objs[i].want, safeRead(f, rl))
		}
		for _, n := range c.Extra {
			objs[i].want = append(objs[i].want, renderCall(rv.MethodByName(n), n))
		}
	}
	wantChurn := make([][]string, len(c.Churn))
	for g, p := range c.Churn {
		for _, x := range p {
			wantChurn[g] = append(wantChurn[g], run(x))
		}
	}
	calendar.VerifResetYearCache()
	var stop int32
	errs := make([]error, c.G+len(c.Churn))
	var readers, churners sync.WaitGroup
	start := make(chan struct{})
	for g := 0; g < c.G; g++ {
		readers.Add(1)
		go func(g int) {
			defer readers.Done()
			<-start
			// round r: ONE accessor (the same for every reader in the same round, so that readers of different years are in
			// the same code at the same time) of ONE held object, Reps times back to back with nothing in between
			for r := 0; r < c.Rounds && errs[g] == nil; r++ {
				i := (g + r) % len(objs)
				o := objs[i]
				a := (r + c.First) % len(names)
				for k := 0; k < c.Reps; k++ {
					got := ""
					if a < len(conditionalReads) {
						got = safeRead(conditionalReads[a], o.l)
					} else {
						got = renderCall(o.calls[a-len(conditionalReads)], names[a])
					}
					if got != o.want[a] {
						errs[g] = fmt.Errorf("reader %d, round %d, re-read %d of the held Lunar of %04d-%02d-%02d (%s): %s = %.200q while other goroutines read held objects of other years / convert other years; alone it answers %.200q", g, r, k, c.Days[i].Y, c.Days[i].M, c.Days[i].D, c.Days[i].Class, names[a], got, o.want[a])
						break
					}
				}
			}
		}(g)
	}
	for g := range c.Churn {
		churners.Add(1)
		go func(g int) {
			defer churners.Done()
			<-start
			for n := 0; atomic.LoadInt32(&stop) == 0 || n < len(c.Churn[g]); n++ {
				i := n % len(c.Churn[g])
				if got := run(c.Churn[g][i]); got != wantChurn[g][i] && errs[c.G+g] == nil {
					errs[c.G+g] = fmt.Errorf("churn goroutine %d call %+v: differs from its sequential result while held objects are re-read\n seq: %.300q\n con: %.300q", g, c.Churn[g][i], wantChurn[g][i], got)
				}
				if n > 1<<20 {
					break
				}
			}
		}(g)
	}
	close(start)
	readers.Wait()
	atomic.StoreInt32(&stop, 1)
	churners.Wait()
	for _, e := range errs {
		if e != nil {
			return e
		}
	}
	if !calendar.VerifYearLockFree() {
		return fmt.Errorf("the year-cache lock is held after all goroutines finished")
	}
	return nil
}

var hotReads = ev.Register(&ev.P[hotCase]{
	Name:  "held_objects_reread_under_churn",
	Rule:  "3..8 Lunar objects are built up front for generated days of DIFFERENT years, chosen where the seasonal rules single a day out (eve of Qingming, the fifth wu day from Lichun / Liqiu, first and last dog days, solstice and term days, lunar year end and New Year, plus ordinary days); 4..12 goroutines then re-read the conditional accessors (festivals, term, counters, pentad, Lichun year pillar, ...) and 0..3 generated further accessors round by round: in a round a reader reads ONE accessor of ONE held object Reps times back to back (all readers the same accessor, each on another year's object), then the next accessor on the next object, while 0..4 further goroutines run generated conversions that evict the year cache; oracle: EVERY single answer equals what a second object for the same day answered alone beforehand (the repeated read is the hit path of anything memoised outside the object; the switch to another object's year is the miss path that rewrites it), the churn goroutines' answers equal their sequential ones, and the lock is free afterwards; bounded by counts, no timers; non-trivial: >= 2 readers, >= 2 different years and >= 1 held day that a rule singles out",
	Check: runHot,
	Class: func(c hotCase) ([]string, bool) {
		ys := map[int]bool{}
		special := false
		ls := []string{fmt.Sprintf("procs:%d", c.Procs)}
		seen := map[string]bool{}
		for _, d := range c.Days {
			ys[d.Y] = true
			if d.Class != "ordinary" {
				special = true
			}
			if !seen[d.Class] {
				seen[d.Class] = true
				ls = append(ls, "day:"+d.Class)
			}
		}
		if len(c.Churn) > 0 {
			ls = append(ls, "withChurn")
		}
		return ls, c.G >= 2 && len(ys) >= 2 && special
	},
	Require: []string{"day:movable", "day:yearEnd", "withChurn", "procs:16"},
})

func genHeldDay(t *rapid.T, y int) heldDay {
	ts := gen.Terms(y)
	jd := func(x ref.DT) int { return ref.JDN(x.Y, x.M, x.D) }
	nth := func(j, g, n int) int { // n-th day on or after j whose stem is g
		for k := 0; ; k++ {
			if ref.DayPillar(j+k)%10 == g {
				if n--; n == 0 {
					return j + k
				}
			}
		}
	}
	var j int
	cls := ""
	switch k := rapid.IntRange(0, 9).Draw(t, "heldClass"); {
	case k < 4:
		cls = "movable"
		j = []int{jd(ts[8]) - 1, nth(jd(ts[4]), 4, 5), nth(jd(ts[16]), 4, 5)}[rapid.IntRange(0, 2).Draw(t, "which")]
	case k < 5:
		cls = "dogDay"
		chu := nth(jd(ts[13]), 6, 3)
		mo := nth(jd(ts[16]), 6, 1)
		j = []int{chu, chu + 10, mo - 1, mo, mo + 9}[rapid.IntRange(0, 4).Draw(t, "which")]
	case k < 6:
		cls = "term"
		j = jd(ts[rapid.IntRange(1, 25).Draw(t, "term")])
	case k < 8:
		cls = "yearEnd"
		j = gen.NewYearJDN(y) - rapid.IntRange(0, 1).Draw(t, "eve")
	default:
		cls = "ordinary"
		j = gen.DayIn(t, y)
	}
	yy, mm, dd := ref.FromJDN(j)
	if yy < 1 || yy > 9998 {
		yy, mm, dd, cls = y, 6, 15, "ordinary"
	}
	return heldDay{yy, mm, dd, cls}
}

func genHot(t *rapid.T) hotCase {
	base := gen.Year(t, 3, 9990)
	c := hotCase{Procs: rapid.SampledFrom([]int{2, 4, 16, 16}).Draw(t, "procs"), G: rapid.IntRange(4, 12).Draw(t, "readers"),
		Rounds: rapid.IntRange(13, 32).Draw(t, "rounds"), Reps: rapid.IntRange(50, 400).Draw(t, "reps"), First: rapid.IntRange(0, 12).Draw(t, "first")}
	nd := rapid.IntRange(3, 8).Draw(t, "held")
	for i := 0; i < nd; i++ {
		y := base + []int{0, 1, -1, 3, 60, 64, -64, 128}[i] + rapid.IntRange(0, 1).Draw(t, "jit")*19
		if y < 3 {
			y = 3 + i
		}
		if y > 9990 {
			y = 9990 - i
		}
		c.Days = append(c.Days, genHeldDay(t, y))
	}
	for i := rapid.IntRange(0, 3).Draw(t, "extra"); i > 0; i-- {
		n := rapid.SampledFrom(lunarAccessors).Draw(t, "accessor")
		if !strings.HasPrefix(n, "Set") {
			c.Extra = append(c.Extra, n)
		}
	}
	for i := rapid.IntRange(0, 4).Draw(t, "churners"); i > 0; i-- {
		var p []call
		for k := rapid.IntRange(1, 4).Draw(t, "len"); k > 0; k-- {
			x := genCall(t, base)
			x.Kind = rapid.SampledFrom([]string{"SolarToLunar", "NewLunar", "LunarYearTable", "TermTable", "TwiceInARow", "TaoFoto"}).Draw(t, "churnKind")
			p = append(p, x)
		}
		c.Churn = append(c.Churn, p)
	}
	return c
}

func TestC09(t *testing.T) {
	ev.Assume("the Go scheduler is not controlled: interleavings are sampled (GOMAXPROCS 1/2/16, Gosched); the race detector finds unordered executed access pairs")
	ev.Assume("hooks VerifResetYearCache / VerifYearLockFree (build tag verif) give fresh-process cache state and a timing-free lost-unlock test")
	// deterministic regression histories (boundary years, recovered panics between lock-taking calls)
	if ev.Shard == 0 {
		probe := call{Kind: "SolarToLunar", A: 2020, B: 5, C: 5, H: 23}
		for _, hk := range callKinds {
			for _, y := range []int{2, 19, 237, 1582, 2019, 2020, 2021, 2033, 9990} {
				histories.Eval(histCase{Probe: probe, History: []call{{Kind: hk, A: y, B: 1, C: 1, H: 12}, {Kind: "BadLunarMonth", A: y}, {Kind: hk, A: y + 1, B: 12, C: 28, H: 0}}})
			}
		}
		for i := 0; i < 6; i++ {
			heldObjects.Eval(heldCase{Y: 2020, History: []call{{Kind: "EdgeYear", A: i}, {Kind: "SolarToLunar", A: 1999, B: 3, C: 3}, {Kind: "SolarToLunar", A: 2500, B: 3, C: 3}}})
		}
	}
	histories.Rapid(ev.Share(ev.Pick(320, 6400)), func(t *rapid.T) histCase {
		base := gen.Year(t, 3, 9990)
		n := rapid.IntRange(1, 30).Draw(t, "len")
		h := make([]call, n)
		for i := range h {
			h[i] = genCall(t, base)
		}
		return histCase{Probe: genCall(t, base), History: h}
	})
	heldObjects.Rapid(ev.Share(ev.Pick(200, 4000)), func(t *rapid.T) heldCase {
		base := gen.Year(t, 3, 9990)
		n := rapid.IntRange(2, 12).Draw(t, "len")
		h := make([]call, n)
		for i := range h {
			h[i] = genCall(t, base)
		}
		return heldCase{Y: base, History: h}
	})
	sectHistory.Rapid(ev.Share(ev.Pick(1200, 24000)), func(t *rapid.T) sectCase {
		var m ref.DT
		switch rapid.IntRange(0, 3).Draw(t, "where") {
		case 0: // between lunar New Year and Lichun (either order)
			y := gen.Year(t, 2, 9990)
			a, b := gen.NewYearJDN(y), ref.JDN(gen.Terms(y)[4].Y, gen.Terms(y)[4].M, gen.Terms(y)[4].D)
			if a > b {
				a, b = b, a
			}
			j := a + rapid.IntRange(0, b-a).Draw(t, "between")
			yy, mm, dd := ref.FromJDN(j)
			m = ref.DT{Y: yy, M: mm, D: dd, H: rapid.SampledFrom([]int{0, 12, 23}).Draw(t, "h")}
		case 1: // a Jie day just before its instant
			y := gen.Year(t, 2, 9990)
			x := gen.Terms(y)[2*rapid.IntRange(1, 12).Draw(t, "jie")]
			m = ref.FromSec(x.Sec() - int64(rapid.IntRange(1, 3600).Draw(t, "before")))
			if m.D != x.D {
				m = ref.DT{Y: x.Y, M: x.M, D: x.D}
			}
		default:
			m = gen.MomentIn(t, 2, 9990)
		}
		n := rapid.IntRange(3, 14).Draw(t, "calls")
		fam := []string{rapid.SampledFrom(sectMethods).Draw(t, "m1"), rapid.SampledFrom(sectMethods).Draw(t, "m2"), rapid.SampledFrom(sectMethods).Draw(t, "m3")}
		var cs []sectCall
		for i := 0; i < n; i++ {
			cs = append(cs, sectCall{rapid.SampledFrom(fam).Draw(t, "method"), rapid.IntRange(0, 3).Draw(t, "sect")})
		}
		return sectCase{m, cs}
	})
	methodOrder.Rapid(ev.Share(ev.Pick(4000, 80000)), genOrder)
	freshProcess.Rapid(ev.Share(ev.Pick(400, 6400)), func(t *rapid.T) freshCase {
		eraCall := func(label string) call {
			base := gen.Year(t, 3, 9990)
			if rapid.IntRange(0, 2).Draw(t, label+"era") > 0 { // the eras served by the historical tables
				base = rapid.IntRange(3, 1700).Draw(t, label+"y")
			}
			c := genCall(t, base)
			if rapid.IntRange(0, 3).Draw(t, label+"anc") == 0 {
				c.Kind = "AncientYear"
				c.A = rapid.IntRange(0, 3999).Draw(t, label+"a")
			}
			return c
		}
		n := rapid.IntRange(1, 12).Draw(t, "len")
		h := make([]call, n)
		for i := range h {
			h[i] = eraCall("h")
		}
		return freshCase{History: h, Probe: eraCall("p")}
	})
	concurrent.Rapid(ev.Share(ev.Pick(480, 4800)), genConc)
	hotReads.Rapid(ev.Share(ev.Pick(64, 1200)), genHot)
	// race-detector batches: the same generator, run in the -race child
	nb := ev.Pick(1, 4)
	per := ev.Pick(5, 40)
	for b := 0; b < nb; b++ {
		var cases []concCase
		ev.RapidRaw("gen-race-batch", per, func(t *rapid.T) { cases = append(cases, genConc(t)) })
		// always include shared first-use reads from many goroutines on one fresh object
		cases = append(cases, concCase{Procs: 16, Shared: 2024, SharedT: ref.DT{Y: 2024, M: 2, D: 10, H: 23}, Burst: []string{"GetEightChar", "GetBaZi", "GetTime", "GetFoto"}, Progs: [][]call{
			{{Kind: "SolarToLunar", A: 2024, B: 1, C: 1}}, {{Kind: "SolarToLunar", A: 2023, B: 1, C: 1}}, {{Kind: "LunarYearTable", A: 2025}}, {{Kind: "NewLunar", A: 2022, B: 1, C: 1}},
			{{Kind: "TermTable", A: 2021, B: 1, C: 1}}, {{Kind: "LunarMonthNext", A: 2020, B: 4, H: 20}}, {{Kind: "Holiday", A: 19, B: 10, C: 1}}, {{Kind: "BadLunarMonth", A: 2024}}}})
		raceFree.Eval(raceCase{Cases: cases})
	}
	// cold-start children: a fresh process whose first library calls run concurrently (lazy package-level
	// initialisation shows only there)
	for b := 0; b < ev.Pick(6, 24); b++ {
		var cases []concCase
		ev.RapidRaw("gen-cold-batch", 1, func(t *rapid.T) {
			c := genConc(t)
			for len(c.Progs) < 8 {
				c.Progs = append(c.Progs, c.Progs[len(c.Progs)%2])
			}
			c.Procs = 16
			// the very first library call of every goroutine is the same cheap one (a table decoder, a civil helper, an
			// astronomy routine, or a conversion): lazily built package-level tables are then first touched by all
			// goroutines at once, not one after the other behind the year-cache lock
			kinds := []string{"UtilDecoders", "CivilUnits", "SolarToLunar", "HolidayViews", "AstroDirect", "TaoFoto", "CivilUtil", "EightCharFull", "Holiday", "TermTable", "Fortune", "ReverseBaZi"}
			first := call{Kind: kinds[(b+ev.Shard)%len(kinds)], A: c.Shared, B: 1 + b%12, C: 1 + b%28, H: b % 24}
			for g := range c.Progs {
				c.Progs[g] = append([]call{first}, c.Progs[g]...)
			}
			cases = append(cases, c)
		})
		if len(cases) > 1 {
			cases = cases[len(cases)-1:]
		}
		raceFree.Eval(raceCase{Cases: cases, Cold: true})
	}
}
