//go:build verif

// C10 — eight-character reverse lookup is sound, complete and sorted.
package c10

import (
	"fmt"
	"testing"
	"time"

	"github.com/6tail/lunar-go/calendar"
	"pgregory.net/rapid"
	"verif/internal/ev"
	"verif/internal/gen"
	"verif/internal/ref"
)

func TestMain(m *testing.M) { ev.Main(m, "C10") }

// The statement's domain ends with "the current year", which the library reads from the wall clock
// (time.Now().Local().Year()). The check reads the same clock ONCE, for the year only; this is the single place
// where a check's domain depends on the date of the run (forced by the statement). Should the year roll over
// during a run, the affected cases are skipped, never reported.
var lastYear = time.Now().Local().Year()

func clockMoved() bool { return time.Now().Local().Year() != lastYear }

type bzCase struct {
	T    ref.DT
	Sect int
	Base int
	Prior int // 0, or the offset of the base year of a look-up for the same pillars made just before (its result is discarded)
}

func pillars(t ref.DT, sect int) [4]string {
	l := gen.Solar(t).GetLunar()
	ec := l.GetEightChar()
	ec.SetSect(sect)
	return [4]string{ec.GetYear(), ec.GetMonth(), ec.GetDay(), ec.GetTime()}
}

func slotOf(h int) int { return ((h + 1) / 2) % 12 }

// sameSlot: does candidate c lie in the two-hour slot of t (rat slot 23:00-00:59 across midnight for sect 1;
// for sect 2 the 23:xx and 00:xx halves belong to their own civil day)?
func sameSlot(t, c ref.DT, sect int) bool {
	jt, jc := ref.JDN(t.Y, t.M, t.D), ref.JDN(c.Y, c.M, c.D)
	if slotOf(t.H) != slotOf(c.H) {
		return false
	}
	if slotOf(t.H) != 0 {
		return jt == jc
	}
	if sect == 2 {
		return jt == jc && (t.H == 23) == (c.H == 23)
	}
	// sect 1: the slot starts at 23:00 of one civil day and ends at 00:59 of the next
	start := func(x ref.DT, j int) int {
		if x.H == 23 {
			return j
		}
		return j - 1
	}
	return start(t, jt) == start(c, jc)
}

// firstJieOfBase: Xiaohan instant of the base year (the first Jie term of that civil year).
// In the Julian era Xiaohan falls in late December of the previous civil year, so the first Jie dated in the base
// year is then Lichun: the statement's lower bound is the first Jie term *of* (dated in) the base year.
func firstJie(base int) ref.DT {
	ts := gen.Terms(base)
	for i := 0; i < len(ts); i += 2 {
		if ts[i].Y == base {
			return ts[i]
		}
	}
	return ts[2]
}

func jieNear(t ref.DT) (inSlot bool, beforeInSlot bool) {
	ts := gen.Terms(t.Y)
	for i := 0; i < len(ts); i += 2 {
		x := ts[i]
		if sameSlot(t, x, 1) || sameSlot(t, x, 2) {
			inSlot = true
			if t.Sec() < x.Sec() {
				beforeInSlot = true
			}
		}
	}
	return
}

var reverse = ev.Register(&ev.P[bzCase]{
	Name: "reverse_lookup_roundtrip",
	Rule: "moments from Xiaohan of the base year to the end of the current year (every Jie 1900..current year x offsets in minutes {-125,-61,-59,-31,-1,0,+1,+31,+61,+119} swept; Lichun day, both sides of midnight, uniform moments generated), sect in {1,2} (2 also passed as 0, 3, −1, which mean 2), base year in {1900 default, 1600, 1984, 2000, and 1582, 1500, 1000 — whose Jie terms lie on the Julian side of the calendar switch} or any year 900..current; moments also in the first weeks after the base year's first Jie, and (for soundness and the lower bound only) in the weeks before the base year; oracle: forward pillars of the moment -> ListSolarFromBaZiBySectAndBaseYear must contain a moment in the same two-hour slot (completeness), every returned moment converted forward has exactly the requested pillars under the requested sect and year >= base (soundness), the list is strictly increasing by R-civil instant, and the default-argument wrappers equal their explicit forms; in most generated cases a look-up for the same pillars from a neighbouring base year (base +1, −1, +2, ±60) is made first and discarded — the answer for the base under test may not depend on it; non-trivial: the slot contains a Jie instant, is the rat slot, or the day is a Jie day",
	Check: func(c bzCase) error {
		t := c.T
		p := pillars(t, c.Sect)
		// one case in three, a look-up for the same year and month pillars but an hour pillar that is no pillar comes
		// first (it panics or returns nothing; recovered): a failed call leaves nothing behind
		if (t.D+t.H+c.Base)%3 == 0 {
			func() {
				defer func() { _ = recover() }()
				calendar.ListSolarFromBaZiBySectAndBaseYear(p[0], p[1], p[2], []string{"丁巳时", "", "子甲", "甲"}[(t.D+t.Mi)%4], c.Sect, c.Base)
			}()
		}
		// the convention argument as passed: any value but 1 means 2
		arg := c.Sect
		if c.Sect == 2 {
			arg = []int{2, 2, 0, 3, -1}[(t.D+t.Mi+t.S)%5]
		}
		// a look-up for the same pillars from a neighbouring base year comes first: what it returns is not looked at, and
		// it may not change what the look-up under test returns
		if c.Prior != 0 && c.Base+c.Prior >= 1 {
			func() {
				defer func() { _ = recover() }()
				calendar.ListSolarFromBaZiBySectAndBaseYear(p[0], p[1], p[2], p[3], arg, c.Base+c.Prior)
			}()
		}
		lst := calendar.ListSolarFromBaZiBySectAndBaseYear(p[0], p[1], p[2], p[3], arg, c.Base)
		var got []ref.DT
		for e := lst.Front(); e != nil; e = e.Next() {
			s, ok := e.Value.(*calendar.Solar)
			if !ok {
				return fmt.Errorf("list element is not *Solar")
			}
			got = append(got, gen.FromSolar(s))
		}
		found := false
		for i, g := range got {
			if g.Y > lastYear+1 { // beyond the domain (only the early-rat representative of next Jan 1 can be here)
				continue
			}
			if q := pillars(g, c.Sect); q != p {
				return fmt.Errorf("%v sect %d base %d: pillars %v; returned %v has pillars %v (unsound)", t, c.Sect, c.Base, p, g, q)
			}
			if g.Y < c.Base {
				return fmt.Errorf("%v sect %d base %d: returned %v is earlier than the base year", t, c.Sect, c.Base, g)
			}
			if i > 0 && !(got[i-1].Sec() < g.Sec()) {
				return fmt.Errorf("%v sect %d base %d: list not strictly increasing: %v then %v", t, c.Sect, c.Base, got[i-1], g)
			}
			if sameSlot(t, g, c.Sect) {
				found = true
			}
		}
		if !found && t.Sec() < firstJie(c.Base).Sec() {
			// the moment lies before the first Jie of the base year: nothing is promised about finding it — the case
			// only exercises "whatever is returned is sound, not earlier than the base year, and ordered"
			return nil
		}
		if !found {
			if clockMoved() {
				return nil
			}
			return fmt.Errorf("%v sect %d base %d: pillars %v; the list %v contains no moment in the original's two-hour slot (incomplete)", t, c.Sect, c.Base, p, got)
		}
		if c.Base == 1900 {
			var w *[]ref.DT
			read := func(l interface{ Len() int }) {}
			_ = read
			a := calendar.ListSolarFromBaZiBySect(p[0], p[1], p[2], p[3], c.Sect)
			if a.Len() != lst.Len() {
				return fmt.Errorf("%v: ListSolarFromBaZiBySect gives %d results, explicit base 1900 gives %d", t, a.Len(), lst.Len())
			}
			if c.Sect == 2 {
				b := calendar.ListSolarFromBaZi(p[0], p[1], p[2], p[3])
				if b.Len() != lst.Len() {
					return fmt.Errorf("%v: ListSolarFromBaZi gives %d results, explicit sect 2 gives %d", t, b.Len(), lst.Len())
				}
				x, y := b.Front(), lst.Front()
				for x != nil {
					if gen.FromSolar(x.Value.(*calendar.Solar)) != gen.FromSolar(y.Value.(*calendar.Solar)) {
						return fmt.Errorf("%v: ListSolarFromBaZi differs from the explicit form", t)
					}
					x, y = x.Next(), y.Next()
				}
			}
			_ = w
		}
		return nil
	},
	Class: func(c bzCase) ([]string, bool) {
		t := c.T
		ls := []string{fmt.Sprintf("sect:%d", c.Sect), fmt.Sprintf("base:%d", c.Base)}
		if c.T.Sec() < firstJie(c.Base).Sec() {
			ls = append(ls, "beforeBaseYear")
		} else if c.T.Sec() < firstJie(c.Base).Sec()+70*86400 {
			ls = append(ls, "firstWeeksOfBaseYear")
		}
		if ref.Mod(c.Base, 60) == 1 {
			ls = append(ls, "base=1mod60")
		}
		nt := false
		in, before := jieNear(t)
		if in {
			ls, nt = append(ls, "jieInSlot"), true
		}
		if before {
			ls = append(ls, "beforeJieInSlot")
		}
		if slotOf(t.H) == 0 {
			ls, nt = append(ls, "ratSlot"), true
			if t.H == 23 {
				ls = append(ls, "hour23")
			}
		}
		for i, x := range gen.Terms(t.Y) {
			if i%2 == 0 && x.Y == t.Y && x.M == t.M && x.D == t.D {
				ls, nt = append(ls, "jieDay"), true
				if i == 4 || i == 28 {
					ls = append(ls, "lichunDay")
				}
			}
		}
		return ls, nt
	},
	Known: func(c bzCase, err error) string {
		return knownSig(c)
	},
	Require: []string{"jieInSlot", "beforeJieInSlot", "ratSlot", "hour23", "jieDay", "lichunDay", "sect:1", "sect:2", "base:1600", "base:1984", "base:1500", "base:1000", "base:1582", "beforeBaseYear", "firstWeeksOfBaseYear", "base=1mod60"},
})

// knownSig: input classes of the open findings (depend on the input only).
func knownSig(c bzCase) string {
	return ""
}

type badCase struct {
	Y, M, D, T int // cycle indices
	Sect       int
}

var unsat = ev.Register(&ev.P[badCase]{
	Name: "unsatisfiable_quadruples",
	Rule: "generated pillar quadruples whose month stem contradicts the five-tigers rule for the year stem (no moment can have them); oracle: the reverse lookup returns an empty list (soundness on inputs that no moment produces); non-trivial: every case; distinct = quadruple",
	Check: func(c badCase) error {
		l := calendar.ListSolarFromBaZiBySect(ref.Pair(c.Y), ref.Pair(c.M), ref.Pair(c.D), ref.Pair(c.T), c.Sect)
		if l.Len() != 0 {
			return fmt.Errorf("pillars %s %s %s %s cannot occur (month stem breaks the five-tigers rule) but the lookup returns %d moments, first %s", ref.Pair(c.Y), ref.Pair(c.M), ref.Pair(c.D), ref.Pair(c.T), l.Len(), l.Front().Value.(*calendar.Solar).ToYmdHms())
		}
		return nil
	},
	Class: func(c badCase) ([]string, bool) { return nil, true },
})

func TestC10(t *testing.T) {
	ev.Assume("forward pillar accessors define 'has those pillars' (their correctness is C05's subject)")
	ev.Assume("the current year (end of the statement's domain) is read from the wall clock once, as the library does")
	// the last days of the current year, every two-hour slot, both sects
	if ev.Shard == 0 {
		for _, d := range []int{29, 30, 31} {
			for h := 0; h < 24; h++ {
				for _, sect := range []int{1, 2} {
					reverse.Eval(bzCase{T: ref.DT{Y: lastYear, M: 12, D: d, H: h, Mi: 30}, Sect: sect, Base: 1900})
				}
			}
		}
		reverse.Eval(bzCase{T: ref.DT{Y: lastYear, M: 12, D: 31, H: 23, Mi: 59, S: 59}, Sect: 2, Base: 2000})
	}
	bases := []int{1900, 1600, 1984, 2000, 1500, 1000, 1582, 1900, 1900}
	offs := []int64{-125, -61, -59, -31, -1, 0, 1, 31, 61, 119}
	step := 1
	if !ev.Thorough() {
		step = 5
	}
	for y := 1900; y <= lastYear; y++ {
		if !ev.Mine(y) || (y%step != 0 && y != 1984 && y != 2017) {
			continue
		}
		ts := gen.Terms(y)
		for i := 2; i <= 24; i += 2 { // Xiaohan .. Daxue of civil year y
			for _, o := range offs {
				m := ref.FromSec(ts[i].Sec() + o*60)
				if m.Y != y || m.Sec() < firstJie(1900).Sec() {
					continue
				}
				for _, sect := range []int{1, 2} {
					reverse.Eval(bzCase{T: m, Sect: sect, Base: 1900})
				}
			}
		}
	}
	if ev.Thorough() {
		reverse.Exhaustive("every Jie instant 1900..current year x 10 minute offsets x both sects (base 1900)")
	}
	reverse.Rapid(ev.Share(ev.Pick(3200, 64000)), func(t *rapid.T) bzCase {
		base := rapid.SampledFrom(bases).Draw(t, "base")
		if rapid.IntRange(0, 2).Draw(t, "anyBase") == 0 { // any base year, on either side of the calendar switch
			base = rapid.IntRange(900, lastYear-1).Draw(t, "baseYear")
			if rapid.Bool().Draw(t, "cycleEdge") { // the look-up walks 60-year cycles: base years next to a multiple of 60 and next to the cycle's first year
				base = 60*rapid.IntRange(15, (lastYear-5)/60).Draw(t, "cycle") + rapid.SampledFrom([]int{-1, 0, 1, 2, 3, 4, 5}).Draw(t, "residue")
			}
		}
		sect := rapid.IntRange(1, 2).Draw(t, "sect")
		lo := base
		var m ref.DT
		switch rapid.IntRange(0, 6).Draw(t, "kind") {
		case 5: // the first weeks after the first Jie of the base year (the lower edge of the domain)
			m = ref.FromSec(firstJie(base).Sec() + int64(rapid.IntRange(0, 70*24*60).Draw(t, "minutesAfterFirstJie"))*60)
		case 6: // the weeks BEFORE the base year: out of the domain, so only soundness and the lower bound are decided
			m = ref.FromSec((ref.DT{Y: base, M: 1, D: 1}).Sec() - int64(rapid.IntRange(1, 45*24*60).Draw(t, "minutesBeforeBaseYear"))*60)
			if m.Y < 2 {
				m = ref.DT{Y: base, M: 8, D: 15, H: 12}
			}
			return bzCase{T: m, Sect: sect, Base: base}
		case 0: // rat hour on both sides of midnight
			m = gen.MomentIn(t, lo, lastYear)
			m.H = rapid.SampledFrom([]int{23, 0}).Draw(t, "ratHour")
			m.Mi, m.S = rapid.IntRange(0, 59).Draw(t, "mi"), rapid.IntRange(0, 59).Draw(t, "s")
		case 1: // a Jie day at a generated time
			y := rapid.IntRange(lo, lastYear).Draw(t, "y")
			x := gen.Terms(y)[2*rapid.IntRange(1, 12).Draw(t, "jie")]
			h, mi, s := gen.Time(t)
			m = ref.DT{Y: x.Y, M: x.M, D: x.D, H: h, Mi: mi, S: s}
		case 2: // minutes around a Jie instant
			y := rapid.IntRange(lo, lastYear).Draw(t, "y")
			x := gen.Terms(y)[2*rapid.IntRange(1, 12).Draw(t, "jie")]
			m = ref.FromSec(x.Sec() + int64(rapid.IntRange(-130, 130).Draw(t, "dmin"))*60 + int64(rapid.IntRange(-1, 1).Draw(t, "ds")))
		default:
			m = gen.MomentIn(t, lo, lastYear)
		}
		if m.Y > lastYear || m.Sec() < firstJie(base).Sec() {
			m = ref.DT{Y: base, M: 8, D: 15, H: 12}
		}
		return bzCase{T: m, Sect: sect, Base: base, Prior: rapid.SampledFrom([]int{0, 0, 1, -1, 1, 2, 60, -60}).Draw(t, "priorBaseOffset")}
	})
	unsat.Rapid(ev.Share(ev.Pick(1600, 32000)), func(t *rapid.T) badCase {
		y := rapid.IntRange(0, 59).Draw(t, "y")
		mz := rapid.IntRange(0, 11).Draw(t, "mz")
		o := ref.Mod(mz-2, 12)
		right := (y%10%5*2 + 2 + o) % 10
		// a stem of the right parity for the branch but not the five-tigers one
		wrong := (right + 2*rapid.IntRange(1, 4).Draw(t, "shift")) % 10
		mi := ref.PairIndex(wrong, mz)
		d := rapid.IntRange(0, 59).Draw(t, "d")
		tz := rapid.IntRange(0, 11).Draw(t, "tz")
		ti := ref.PairIndex((d%10%5*2+tz)%10, tz)
		return badCase{y, mi, d, ti, rapid.IntRange(1, 2).Draw(t, "sect")}
	})
}
