//go:build verif

// C11 — alternative routes to the same fact give the same answer.
package c11

import (
	"container/list"
	"fmt"
	"reflect"
	"strings"
	"sync"
	"testing"

	"github.com/6tail/lunar-go/LunarUtil"
	"github.com/6tail/lunar-go/calendar"
	"pgregory.net/rapid"
	"verif/internal/dig"
	"verif/internal/ev"
	"verif/internal/gen"
	"verif/internal/ref"
)

func TestMain(m *testing.M) { ev.Main(m, "C11") }

type momentCase struct {
	T    ref.DT
	Sect int // eight-character sect
}

// call invokes a zero-argument method by name and renders the result (lists, arrays, objects).
func call(o interface{}, name string, args ...interface{}) string {
	v := reflect.ValueOf(o)
	m := v.MethodByName(name)
	if !m.IsValid() {
		return "NO-SUCH-METHOD:" + name
	}
	in := make([]reflect.Value, len(args))
	for i, a := range args {
		in[i] = reflect.ValueOf(a)
	}
	var out string
	func() {
		defer func() {
			if r := recover(); r != nil {
				out = fmt.Sprintf("PANIC:%v", r)
			}
		}()
		res := m.Call(in)
		tmp := map[string]string{}
		out = dig.Render(res[0], name, tmp)
	}()
	return out
}

type pair struct{ A, B string } // accessor on the lunar date, accessor on the other object

// lunar date's own hour accessors vs its hour object
var hourPairs = []pair{
	{"GetTimeGan", "GetGan"}, {"GetTimeZhi", "GetZhi"}, {"GetTimeInGanZhi", "GetGanZhi"}, {"GetTimeShengXiao", "GetShengXiao"},
	{"GetTimeGanIndex", "GetGanIndex"}, {"GetTimeZhiIndex", "GetZhiIndex"},
	{"GetTimePositionXi", "GetPositionXi"}, {"GetTimePositionXiDesc", "GetPositionXiDesc"},
	{"GetTimePositionYangGui", "GetPositionYangGui"}, {"GetTimePositionYangGuiDesc", "GetPositionYangGuiDesc"},
	{"GetTimePositionYinGui", "GetPositionYinGui"}, {"GetTimePositionYinGuiDesc", "GetPositionYinGuiDesc"},
	{"GetTimePositionFu", "GetPositionFu"}, {"GetTimePositionFuDesc", "GetPositionFuDesc"},
	{"GetTimePositionCai", "GetPositionCai"}, {"GetTimePositionCaiDesc", "GetPositionCaiDesc"},
	{"GetTimeNaYin", "GetNaYin"}, {"GetTimeTianShen", "GetTianShen"}, {"GetTimeTianShenType", "GetTianShenType"}, {"GetTimeTianShenLuck", "GetTianShenLuck"},
	{"GetTimeChong", "GetChong"}, {"GetTimeSha", "GetSha"}, {"GetTimeChongGan", "GetChongGan"}, {"GetTimeChongGanTie", "GetChongGanTie"},
	{"GetTimeChongShengXiao", "GetChongShengXiao"}, {"GetTimeChongDesc", "GetChongDesc"},
	{"GetTimeYi", "GetYi"}, {"GetTimeJi", "GetJi"}, {"GetTimeNineStar", "GetNineStar"}, {"GetTimeXun", "GetXun"}, {"GetTimeXunKong", "GetXunKong"},
}

// lunar-year object vs the lunar date's New-Year-based year accessors
var yearPairs = []pair{
	{"GetYearGan", "GetGan"}, {"GetYearZhi", "GetZhi"}, {"GetYearInGanZhi", "GetGanZhi"}, {"GetYearGanIndex", "GetGanIndex"}, {"GetYearZhiIndex", "GetZhiIndex"},
}

// deprecated alias -> replacement (both on the lunar date)
var aliasPairs = []pair{
	{"GetGan", "GetYearGan"}, {"GetZhi", "GetYearZhi"}, {"GetShengxiao", "GetYearShengXiao"},
	{"GetPositionXi", "GetDayPositionXi"}, {"GetPositionXiDesc", "GetDayPositionXiDesc"},
	{"GetPositionYangGui", "GetDayPositionYangGui"}, {"GetPositionYangGuiDesc", "GetDayPositionYangGuiDesc"},
	{"GetPositionYinGui", "GetDayPositionYinGui"}, {"GetPositionYinGuiDesc", "GetDayPositionYinGuiDesc"},
	{"GetPositionFu", "GetDayPositionFu"}, {"GetPositionFuDesc", "GetDayPositionFuDesc"},
	{"GetPositionCai", "GetDayPositionCai"}, {"GetPositionCaiDesc", "GetDayPositionCaiDesc"},
	{"GetChong", "GetDayChong"}, {"GetChongGan", "GetDayChongGan"}, {"GetChongGanTie", "GetDayChongGanTie"},
	{"GetChongShengXiao", "GetDayChongShengXiao"}, {"GetChongDesc", "GetDayChongDesc"}, {"GetSha", "GetDaySha"},
}

type sectPair struct {
	Default, Explicit string
	Sect              int
}

// default-school accessor -> the explicit school it documents
var sectPairs = []sectPair{
	{"GetDayPositionFu", "GetDayPositionFuBySect", 2}, {"GetDayPositionFuDesc", "GetDayPositionFuDescBySect", 2},
	{"GetYearNineStar", "GetYearNineStarBySect", 2}, {"GetMonthNineStar", "GetMonthNineStarBySect", 2},
	{"GetDayYi", "GetDayYiBySect", 1}, {"GetDayJi", "GetDayJiBySect", 1},
	{"GetYearPositionTaiSui", "GetYearPositionTaiSuiBySect", 2}, {"GetYearPositionTaiSuiDesc", "GetYearPositionTaiSuiDescBySect", 2},
	{"GetMonthPositionTaiSui", "GetMonthPositionTaiSuiBySect", 2}, {"GetMonthPositionTaiSuiDesc", "GetMonthPositionTaiSuiDescBySect", 2},
	{"GetDayPositionTaiSui", "GetDayPositionTaiSuiBySect", 2}, {"GetDayPositionTaiSuiDesc", "GetDayPositionTaiSuiDescBySect", 2},
}

func strs(l *list.List) []string {
	var out []string
	for e := l.Front(); e != nil; e = e.Next() {
		out = append(out, e.Value.(string))
	}
	return out
}

var routes = ev.Register(&ev.P[momentCase]{
	Name: "paired_accessors_agree",
	Rule: "generated moments (emphasis: after the December solstice, 23:00-23:59, both solstice days, leap months, odd-hour boundaries); oracle: equality of renderings for an explicit pair table — the lunar date's GetTime* accessors vs its hour object GetTime() and GetTimes()[slot] (31 pairs), the lunar-year object vs the New-Year-based year accessors incl. nine star and Tai Sui (sect 1), deprecated aliases vs replacements (19 pairs + GetBaZi* vs EightChar + Solar.GetXingzuo), default-school accessors vs the explicit school they delegate to (12 pairs + GetYun vs GetYunBySect(…,1), hour-object GetPositionFu vs BySect(2), LunarYear/LunarMonth GetPositionFu vs BySect(2), whole-day defaults of prev/next term); the hour object's GetMinHm/GetMaxHm are the exact bounds of the two-hour slot (子 cut at midnight), bracket the moment and decode to the hour pillar's branch; non-trivial: 23:xx, on/after the December solstice, on a solstice day, or in a leap month",
	Check: func(c momentCase) error {
		t := c.T
		l := gen.Solar(t).GetLunar()
		fail := func(what, a, b string) error {
			return fmt.Errorf("%v (lunar %d/%d/%d): %s: %q vs %q", t, l.GetYear(), l.GetMonth(), l.GetDay(), what, a, b)
		}
		lt := l.GetTime()
		idx := 0
		if t.H > 0 {
			idx = (t.H + 1) / 2
		}
		ts := l.GetTimes()
		if len(ts) != 13 {
			return fmt.Errorf("%v: GetTimes has %d entries", t, len(ts))
		}
		for _, p := range hourPairs {
			a := call(l, p.A)
			if b := call(lt, p.B); a != b {
				return fail("Lunar."+p.A+" vs GetTime()."+p.B, a, b)
			}
			if b := call(ts[idx], p.B); a != b {
				return fail(fmt.Sprintf("Lunar.%s vs GetTimes()[%d].%s", p.A, idx, p.B), a, b)
			}
		}
		// every entry of the hour list is the hour object of that slot: it answers like a lunar date built for the
		// slot's first minute (the late-rat entry, slot 12, belongs to 23:00 and thus to the next day's pillar)
		for _, i := range []int{0, 12, 1 + (t.D+t.H)%11} {
			hh := 0
			if i > 0 {
				hh = 2*i - 1
			}
			at := calendar.NewSolar(t.Y, t.M, t.D, hh, 0, 0).GetLunar()
			for _, p := range hourPairs {
				if a, b := call(at, p.A), call(ts[i], p.B); a != b {
					return fail(fmt.Sprintf("GetTimes()[%d].%s (asked on a lunar date at %02d:%02d) vs Lunar.%s at %02d:00", i, p.B, t.H, t.Mi, p.A, hh), b, a)
				}
			}
		}
		// hour objects of another day, then a refused hour-object constructor call for this day (minute 60), then this
		// day's hour objects again: refused calls leave nothing behind
		if (t.D+t.H)%4 == 0 {
			o := l.Next(-3 - t.Mi%5)
			_ = calendar.NewLunarTime(o.GetYear(), o.GetMonth(), o.GetDay(), 10, 30, 0).GetGanZhi()
			func() {
				defer func() { _ = recover() }()
				calendar.NewLunarTime(l.GetYear(), l.GetMonth(), l.GetDay(), 10, 60, 0)
			}()
			func() {
				defer func() { _ = recover() }()
				calendar.NewLunarTime(l.GetYear(), l.GetMonth(), l.GetDay(), 24, 0, 0)
			}()
			lt2 := calendar.NewLunarTime(l.GetYear(), l.GetMonth(), l.GetDay(), t.H, t.Mi, t.S)
			if lt2.GetGanZhi() != l.GetTimeInGanZhi() || lt2.GetTianShen() != l.GetTimeTianShen() || lt2.GetNineStar().GetIndex() != l.GetTimeNineStar().GetIndex() || l.GetTime().GetGanZhi() != l.GetTimeInGanZhi() {
				return fail("hour object built after a refused constructor call vs the lunar date's own hour accessors", lt2.GetGanZhi()+"/"+lt2.GetTianShen(), l.GetTimeInGanZhi()+"/"+l.GetTimeTianShen())
			}
		}
		// the hour object's slot bounds bracket the moment and lie in the same slot as the hour pillar's branch
		hm := fmt.Sprintf("%02d:%02d", t.H, t.Mi)
		lo, hi := lt.GetMinHm(), lt.GetMaxHm()
		wlo, whi := fmt.Sprintf("%02d:00", t.H-1+t.H%2), fmt.Sprintf("%02d:59", t.H+t.H%2) // odd hours open a slot, even hours close it
		if t.H == 0 || t.H == 23 {                                                         // the 子 slot is cut at midnight
			wlo, whi = fmt.Sprintf("%02d:00", t.H), fmt.Sprintf("%02d:59", t.H)
		}
		if lo != wlo || hi != whi || !(lo <= hm && hm <= hi) || LunarUtil.GetTimeZhiIndex(lo) != l.GetTimeZhiIndex() || LunarUtil.GetTimeZhiIndex(hi) != l.GetTimeZhiIndex() {
			return fail("hour object's slot bounds GetMinHm..GetMaxHm vs the moment "+hm+" (branch "+l.GetTimeZhi()+")", lo, hi)
		}
		ly := calendar.NewLunarYear(l.GetYear())
		// the year object is also reached by stepping from another year (a third route to the same facts)
		if k := []int{0, 12, -10, 1, 25, -61}[(t.D+t.H)%6]; k != 0 && l.GetYear()-k >= 1 && l.GetYear()-k <= 9998 {
			ly = calendar.NewLunarYear(l.GetYear() - k).Next(k)
		}
		for _, p := range yearPairs {
			if a, b := call(l, p.A), call(ly, p.B); a != b {
				return fail("Lunar."+p.A+" vs LunarYear."+p.B, a, b)
			}
		}
		if a, b := call(l, "GetYearNineStarBySect", 1), call(ly, "GetNineStar"); a != b {
			return fail("Lunar.GetYearNineStarBySect(1) vs LunarYear.GetNineStar", a, b)
		}
		if a, b := l.GetYearNineStarBySect(1).GetIndex(), ly.GetNineStar().GetIndex(); a != b {
			return fail("year nine star index (sect 1) vs LunarYear", fmt.Sprint(a), fmt.Sprint(b))
		}
		if a, b := l.GetYearPositionTaiSuiBySect(1), ly.GetPositionTaiSui(); a != b {
			return fail("Lunar.GetYearPositionTaiSuiBySect(1) vs LunarYear.GetPositionTaiSui", a, b)
		}
		if a, b := l.GetYearPositionTaiSuiDescBySect(1), ly.GetPositionTaiSuiDesc(); a != b {
			return fail("Lunar.GetYearPositionTaiSuiDescBySect(1) vs LunarYear.GetPositionTaiSuiDesc", a, b)
		}
		for _, p := range aliasPairs {
			if a, b := call(l, p.A), call(l, p.B); a != b {
				return fail("deprecated Lunar."+p.A+" vs Lunar."+p.B, a, b)
			}
		}
		s := l.GetSolar()
		if s.GetXingzuo() != s.GetXingZuo() {
			return fail("Solar.GetXingzuo vs GetXingZuo", s.GetXingzuo(), s.GetXingZuo())
		}
		for _, p := range sectPairs {
			if a, b := call(l, p.Default), call(l, p.Explicit, p.Sect); a != b {
				return fail(fmt.Sprintf("Lunar.%s vs %s(%d)", p.Default, p.Explicit, p.Sect), a, b)
			}
		}
		if a, b := lt.GetPositionFu(), lt.GetPositionFuBySect(2); a != b {
			return fail("LunarTime.GetPositionFu vs BySect(2)", a, b)
		}
		if a, b := lt.GetPositionFuDesc(), lt.GetPositionFuDescBySect(2); a != b {
			return fail("LunarTime.GetPositionFuDesc vs BySect(2)", a, b)
		}
		if a, b := ly.GetPositionFu(), ly.GetPositionFuBySect(2); a != b {
			return fail("LunarYear.GetPositionFu vs BySect(2)", a, b)
		}
		lm := calendar.NewLunarMonthFromYm(l.GetYear(), l.GetMonth())
		if a, b := lm.GetPositionFu(), lm.GetPositionFuBySect(2); a != b {
			return fail("LunarMonth.GetPositionFu vs BySect(2)", a, b)
		}
		for _, n := range []string{"GetPrevJie", "GetNextJie", "GetPrevQi", "GetNextQi", "GetPrevJieQi", "GetNextJieQi"} {
			a, b := call(l, n), call(l, n+"ByWholeDay", false)
			if a != b {
				return fail("Lunar."+n+" vs ByWholeDay(false)", a, b)
			}
		}
		// the chart's convention switch belongs to the chart: no accessor of the lunar date other than the chart itself
		// and the deprecated GetBaZi* family (which read the chart) answers differently after it is flipped
		if t.H == 23 || (t.D+t.Mi)%8 == 0 {
			l2 := gen.Solar(t).GetLunar()
			strip := func(d map[string]string) map[string]string {
				for k := range d {
					if strings.Contains(k, "GetBaZi") || strings.Contains(k, "GetEightChar") {
						delete(d, k)
					}
				}
				return d
			}
			depth := 0
			if t.H == 23 && (t.D+t.Mi)%2 == 0 { // one level into the returned objects (Taoist/Buddhist date, hour objects, stars, terms)
				depth = 1
			}
			before := strip(dig.Of(l2, depth))
			l2.GetEightChar().SetSect(1)
			after := strip(dig.Of(l2, depth))
			l2.GetEightChar().SetSect(2)
			if df := dig.Diff(before, after, 4); df != "" {
				return fail("accessors of the lunar date before vs after its chart's SetSect(1)", df, "")
			}
		}
		// eight characters: deprecated GetBaZi* family vs the EightChar object under its default sect
		ec := l.GetEightChar()
		// the deprecated family reads the lunar date's own chart, whichever convention it is switched to
		ec.SetSect(1)
		if bz := l.GetBaZi(); bz != [4]string{ec.GetYear(), ec.GetMonth(), ec.GetDay(), ec.GetTime()} {
			ec.SetSect(2)
			return fail("GetBaZi vs EightChar after SetSect(1)", fmt.Sprint(bz), fmt.Sprint(l.GetEightChar()))
		}
		if a, b := l.GetBaZiShiShenGan(), [4]string{ec.GetYearShiShenGan(), ec.GetMonthShiShenGan(), ec.GetDayShiShenGan(), ec.GetTimeShiShenGan()}; a != b {
			ec.SetSect(2)
			return fail("GetBaZiShiShenGan vs EightChar after SetSect(1)", fmt.Sprint(a), fmt.Sprint(b))
		}
		if a, b := l.GetBaZiNaYin(), [4]string{ec.GetYearNaYin(), ec.GetMonthNaYin(), ec.GetDayNaYin(), ec.GetTimeNaYin()}; a != b {
			ec.SetSect(2)
			return fail("GetBaZiNaYin vs EightChar after SetSect(1)", fmt.Sprint(a), fmt.Sprint(b))
		}
		if a, b := l.GetBaZiWuXing(), [4]string{ec.GetYearWuXing(), ec.GetMonthWuXing(), ec.GetDayWuXing(), ec.GetTimeWuXing()}; a != b {
			ec.SetSect(2)
			return fail("GetBaZiWuXing vs EightChar after SetSect(1)", fmt.Sprint(a), fmt.Sprint(b))
		}
		if a, b := l.GetBaZiShiShenZhi()[2], strs(l.GetBaZiShiShenDayZhi())[0]; a != b {
			ec.SetSect(2)
			return fail("GetBaZiShiShenZhi()[2] vs GetBaZiShiShenDayZhi()[0] after SetSect(1)", a, b)
		}
		ec.SetSect(2)
		bz := l.GetBaZi()
		if bz != [4]string{ec.GetYear(), ec.GetMonth(), ec.GetDay(), ec.GetTime()} {
			return fail("GetBaZi vs EightChar", fmt.Sprint(bz), ec.String())
		}
		if a, b := l.GetBaZiWuXing(), [4]string{ec.GetYearWuXing(), ec.GetMonthWuXing(), ec.GetDayWuXing(), ec.GetTimeWuXing()}; a != b {
			return fail("GetBaZiWuXing vs EightChar", fmt.Sprint(a), fmt.Sprint(b))
		}
		if a, b := l.GetBaZiNaYin(), [4]string{ec.GetYearNaYin(), ec.GetMonthNaYin(), ec.GetDayNaYin(), ec.GetTimeNaYin()}; a != b {
			return fail("GetBaZiNaYin vs EightChar", fmt.Sprint(a), fmt.Sprint(b))
		}
		if a, b := l.GetBaZiShiShenGan(), [4]string{ec.GetYearShiShenGan(), ec.GetMonthShiShenGan(), ec.GetDayShiShenGan(), ec.GetTimeShiShenGan()}; a != b {
			return fail("GetBaZiShiShenGan vs EightChar", fmt.Sprint(a), fmt.Sprint(b))
		}
		if a, b := strs(l.GetBaZiShiShenDayZhi()), strs(ec.GetDayShiShenZhi()); strings.Join(a, ",") != strings.Join(b, ",") {
			return fail("GetBaZiShiShenDayZhi vs EightChar", fmt.Sprint(a), fmt.Sprint(b))
		}
		// GetYun(g) == GetYunBySect(g, 1)
		ec.SetSect(c.Sect)
		// genders in a rotating order on the one chart; 1 is male, every other value is female and is echoed back
		gs := [][]int{{1, 0, 2, 3, -1}, {0, 1}, {3, 1, 0, 2}, {-1, 1, 1, 0}, {2, 0, 1}}[(t.D+t.H)%5]
		for _, g := range gs {
			y1, y2 := ec.GetYun(g), ec.GetYunBySect(g, 1)
			a := fmt.Sprint(y1.GetGender(), y1.GetStartYear(), y1.GetStartMonth(), y1.GetStartDay(), y1.GetStartHour(), y1.IsForward(), y1.GetStartSolar().ToYmdHms())
			b := fmt.Sprint(y2.GetGender(), y2.GetStartYear(), y2.GetStartMonth(), y2.GetStartDay(), y2.GetStartHour(), y2.IsForward(), y2.GetStartSolar().ToYmdHms())
			if y1.GetGender() != g {
				return fail(fmt.Sprintf("GetYun(%d).GetGender()", g), fmt.Sprint(y1.GetGender()), fmt.Sprint(g))
			}
			if g != 1 && g != 0 { // any value but 1 counts like 0
				y0 := ec.GetYunBySect(0, 1)
				if c0 := fmt.Sprint(y0.GetStartYear(), y0.GetStartMonth(), y0.GetStartDay(), y0.GetStartHour(), y0.IsForward(), y0.GetStartSolar().ToYmdHms()); !strings.HasSuffix(b, c0) {
					return fail(fmt.Sprintf("GetYunBySect(%d,1) vs GetYunBySect(0,1)", g), b, c0)
				}
			}
			if a != b {
				return fail(fmt.Sprintf("GetYun(%d) vs GetYunBySect(%d,1)", g, g), a, b)
			}
		}
		ec.SetSect(2)
		return nil
	},
	Class:   func(c momentCase) ([]string, bool) { return classMoment(c.T) },
	Require: []string{"hour23", "afterDecemberSolstice", "solsticeDay", "leapMonth", "jieDayBeforeInstant"},
})

func classMoment(t ref.DT) ([]string, bool) {
	l := gen.Solar(t).GetLunar()
	ls := []string{gen.Era(t.Y)}
	nt := false
	if t.H == 23 {
		ls, nt = append(ls, "hour23"), true
	}
	ts := gen.Terms(t.Y)
	dz := ts[25]
	if ref.JDN(t.Y, t.M, t.D) >= ref.JDN(dz.Y, dz.M, dz.D) {
		ls, nt = append(ls, "afterDecemberSolstice"), true
	}
	for _, i := range []int{1, 13, 25} {
		if x := ts[i]; x.Y == t.Y && x.M == t.M && x.D == t.D {
			ls, nt = append(ls, "solsticeDay"), true
		}
	}
	if l.GetMonth() < 0 {
		ls, nt = append(ls, "leapMonth"), true
	}
	if l.GetMonthInGanZhi() != l.GetMonthInGanZhiExact() {
		ls, nt = append(ls, "jieDayBeforeInstant"), true
		if l.GetYearInGanZhiByLiChun() != l.GetYearInGanZhiExact() {
			ls = append(ls, "lichunDayBeforeInstant")
		}
	}
	return ls, nt
}

// ------------------------------------------------------------------------------------------
// eight-character attributes are derived from the pillar selected by the current sect

var (
	fdMu sync.Mutex
	fd   = map[string]map[string]string{} // attribute -> key -> value (+ first witness)
	fdW  = map[string]map[string]string{}
)

// functional dependency: the same attribute with the same defining inputs must give the same value
func depend(attr, key, val, witness string) error {
	fdMu.Lock()
	defer fdMu.Unlock()
	if fd[attr] == nil {
		fd[attr], fdW[attr] = map[string]string{}, map[string]string{}
	}
	if old, ok := fd[attr][key]; ok {
		if old != val {
			return fmt.Errorf("%s for inputs (%s) is %q at %s but %q at %s", attr, key, old, fdW[attr][key], val, witness)
		}
		return nil
	}
	fd[attr][key], fdW[attr][key] = val, witness
	return nil
}

var seedOnce sync.Once

var eightChar = ev.Register(&ev.P[momentCase]{
	Name: "eightchar_attributes_follow_pillars",
	Rule: "generated moments x sect {1,2}; oracle: every derived attribute of each pillar equals the value recomputed from that pillar's own string through the exported tables (five elements, nayin, hidden stems, ten-gods of stem and hidden stems relative to the day stem of the current sect, xun, empty branches), and life stage / TaiXi / TaiYuan / MingGong / ShenGong are functions of their defining inputs over the whole run (two charts with the same inputs report the same value; a twin chart is built for every 23:xx moment: noon of the day whose pillar the sect selects); non-trivial: 23:xx (the sects select different day pillars)",
	Check: func(c momentCase) error {
		t := c.T
		var checkOn func(ec *calendar.EightChar, t ref.DT, raw, sect int) error
		check := func(t ref.DT, sect int) error {
			ec := gen.Solar(t).GetLunar().GetEightChar()
			defer ec.SetSect(2)
			// the same object is switched between the conventions: nothing may survive from the previous one
			// (a value other than 1 and 2 is documented to mean 2 and is part of the walk)
			odd := []int{0, 3, -1, 4}[(t.D+t.Mi)%4]
			for _, sc := range [][2]int{{sect, sect}, {odd, 2}, {3 - sect, 3 - sect}, {sect, sect}} {
				if err := checkOn(ec, t, sc[0], sc[1]); err != nil {
					return err
				}
			}
			return nil
		}
		checkOn = func(ec *calendar.EightChar, t ref.DT, raw, sect int) error {
			ec.SetSect(raw)
			if ec.GetSect() != sect {
				return fmt.Errorf("%v: SetSect(%d) then GetSect() = %d", t, raw, ec.GetSect())
			}
			w := fmt.Sprintf("%v/sect%d", t, sect)
			dayGan := ec.GetDayGan()
			type pl struct {
				name, gz, gan, zhi string
			}
			ps := []pl{{"Year", ec.GetYear(), ec.GetYearGan(), ec.GetYearZhi()}, {"Month", ec.GetMonth(), ec.GetMonthGan(), ec.GetMonthZhi()},
				{"Day", ec.GetDay(), ec.GetDayGan(), ec.GetDayZhi()}, {"Time", ec.GetTime(), ec.GetTimeGan(), ec.GetTimeZhi()}}
			for _, p := range ps {
				if p.gan+p.zhi != p.gz || ref.PairIndexOf(p.gz) < 0 {
					return fmt.Errorf("%s: %s pillar %q vs stem %q + branch %q", w, p.name, p.gz, p.gan, p.zhi)
				}
				get := func(attr string) string { return call(ec, "Get"+p.name+attr) }
				if a, b := get("WuXing"), LunarUtil.WU_XING_GAN[p.gan]+LunarUtil.WU_XING_ZHI[p.zhi]; a != b {
					return fmt.Errorf("%s: %sWuXing %q, pillar %s gives %q", w, p.name, a, p.gz, b)
				}
				if a, b := get("NaYin"), LunarUtil.NAYIN[p.gz]; a != b {
					return fmt.Errorf("%s: %sNaYin %q, pillar %s gives %q", w, p.name, a, p.gz, b)
				}
				if a, b := get("HideGan"), "["+strings.Join(LunarUtil.ZHI_HIDE_GAN[p.zhi], ",")+"]"; a != b {
					return fmt.Errorf("%s: %sHideGan %q, branch %s gives %q", w, p.name, a, p.zhi, b)
				}
				wantSS := LunarUtil.SHI_SHEN[dayGan+p.gan]
				if p.name == "Day" {
					wantSS = "日主"
				}
				if a := get("ShiShenGan"); a != wantSS {
					return fmt.Errorf("%s: %sShiShenGan %q, day stem %s + stem %s gives %q", w, p.name, a, dayGan, p.gan, wantSS)
				}
				var ssz []string
				for _, h := range LunarUtil.ZHI_HIDE_GAN[p.zhi] {
					ssz = append(ssz, LunarUtil.SHI_SHEN[dayGan+h])
				}
				if a, b := get("ShiShenZhi"), "["+strings.Join(ssz, ",")+"]"; a != b {
					return fmt.Errorf("%s: %sShiShenZhi %q, day stem %s + branch %s gives %q", w, p.name, a, dayGan, p.zhi, b)
				}
				if a, b := get("Xun"), LunarUtil.GetXun(p.gz); a != b {
					return fmt.Errorf("%s: %sXun %q, pillar %s gives %q", w, p.name, a, p.gz, b)
				}
				if a, b := get("XunKong"), LunarUtil.GetXunKong(p.gz); a != b {
					return fmt.Errorf("%s: %sXunKong %q, pillar %s gives %q", w, p.name, a, p.gz, b)
				}
				if err := depend("DiShi", dayGan+"|"+p.zhi, get("DiShi"), w+"/"+p.name); err != nil {
					return err
				}
			}
			if err := depend("TaiXi", ec.GetDay(), ec.GetTaiXi(), w); err != nil {
				return err
			}
			if err := depend("TaiXiNaYin", ec.GetDay(), ec.GetTaiXiNaYin(), w); err != nil {
				return err
			}
			if err := depend("TaiYuan", ec.GetMonth(), ec.GetTaiYuan(), w); err != nil {
				return err
			}
			if err := depend("MingGong", ec.GetYearGan()+"|"+ec.GetMonthZhi()+"|"+ec.GetTimeZhi(), ec.GetMingGong(), w); err != nil {
				return err
			}
			if err := depend("ShenGong", ec.GetYearGan()+"|"+ec.GetMonthZhi()+"|"+ec.GetTimeZhi(), ec.GetShenGong(), w); err != nil {
				return err
			}
			if a, b := ec.GetTaiYuanNaYin(), LunarUtil.NAYIN[ec.GetTaiYuan()]; a != b {
				return fmt.Errorf("%s: TaiYuanNaYin %q vs table %q", w, a, b)
			}
			if a, b := ec.GetMingGongNaYin(), LunarUtil.NAYIN[ec.GetMingGong()]; a != b {
				return fmt.Errorf("%s: MingGongNaYin %q vs table %q", w, a, b)
			}
			if a, b := ec.GetShenGongNaYin(), LunarUtil.NAYIN[ec.GetShenGong()]; a != b {
				return fmt.Errorf("%s: ShenGongNaYin %q vs table %q", w, a, b)
			}
			return nil
		}
		// reference observations first (also on replay): 120 days x 11 non-rat slots where both sects agree
		var seedErr error
		seedOnce.Do(func() {
			for d := 0; d < 120 && seedErr == nil; d++ {
				for h := 1; h <= 21 && seedErr == nil; h += 2 {
					x := (ref.DT{Y: 2000, M: 1, D: 1, H: h}).AddDays(d * 37)
					seedErr = check(x, 2)
				}
			}
		})
		if seedErr != nil {
			return seedErr
		}
		if err := check(t, c.Sect); err != nil {
			return err
		}
		// twin chart sharing the day pillar: noon of the civil day whose pillar the sect selects
		tw := t
		if t.H == 23 && c.Sect == 1 {
			if ref.JDN(t.Y, t.M, t.D) < ref.JDNMax {
				tw = t.AddDays(1)
			}
		}
		tw.H, tw.Mi, tw.S = 12, 0, 0
		return check(tw, 3-c.Sect)
	},
	Class: func(c momentCase) ([]string, bool) {
		ls, _ := classMoment(c.T)
		ls = append(ls, fmt.Sprintf("sect:%d", c.Sect))
		return ls, c.T.H == 23
	},
	Require: []string{"hour23", "sect:1", "sect:2", "lichunDayBeforeInstant"},
})

func genMoment(t *rapid.T) ref.DT {
	switch rapid.IntRange(0, 6).Draw(t, "kind") {
	case 6: // a Jie day (Lichun every third time) before or after the instant: the day-level and instant-level pillars differ
		y := gen.Year(t, 1, 9998)
		ts := gen.Terms(y)
		i := 2 * rapid.IntRange(1, 12).Draw(t, "jie")
		if rapid.IntRange(0, 2).Draw(t, "lichun") == 0 {
			i = 4
		}
		x := ts[i]
		h, mi, s := gen.Time(t)
		if rapid.Bool().Draw(t, "justBefore") {
			b := ref.FromSec(x.Sec() - int64(rapid.IntRange(1, 7200).Draw(t, "secBefore")))
			if b.D == x.D {
				return b
			}
		}
		return ref.DT{Y: x.Y, M: x.M, D: x.D, H: h, Mi: mi, S: s}
	case 0: // between the December solstice and the year end
		y := gen.Year(t, 1, 9998)
		dz := gen.Terms(y)[25]
		j := ref.JDN(dz.Y, dz.M, dz.D) + rapid.IntRange(-1, 10).Draw(t, "afterSolstice")
		yy, mm, dd := ref.FromJDN(j)
		if yy != y {
			yy, mm, dd = y, 12, 31
		}
		h, mi, s := gen.Time(t)
		return ref.DT{Y: yy, M: mm, D: dd, H: h, Mi: mi, S: s}
	case 1: // summer solstice neighbourhood
		y := gen.Year(t, 1, 9998)
		xz := gen.Terms(y)[13]
		j := ref.JDN(xz.Y, xz.M, xz.D) + rapid.IntRange(-1, 1).Draw(t, "aroundSummer")
		yy, mm, dd := ref.FromJDN(j)
		h, mi, s := gen.Time(t)
		return ref.DT{Y: yy, M: mm, D: dd, H: h, Mi: mi, S: s}
	case 2: // 23:xx
		m := gen.Moment(t)
		m.H = 23
		return m
	case 3: // leap month days
		y := gen.Year(t, 1, 9997)
		ly := calendar.NewLunarYear(y)
		if lp := ly.GetLeapMonth(); lp != 0 {
			lm := ly.GetMonth(-lp)
			d := rapid.IntRange(1, lm.GetDayCount()).Draw(t, "leapDay")
			s := calendar.NewLunar(y, -lp, d, 0, 0, 0).GetSolar()
			h, mi, sec := gen.Time(t)
			if s.GetYear() >= 1 && s.GetYear() <= 9998 {
				return ref.DT{Y: s.GetYear(), M: s.GetMonth(), D: s.GetDay(), H: h, Mi: mi, S: sec}
			}
		}
		return gen.Moment(t)
	default:
		return gen.Moment(t)
	}
}

func TestC11(t *testing.T) {
	ev.Assume("both sides of every comparison are the library; the pair table is taken from the statement and the accessor documentation (deprecated/default annotations)")
	// deterministic: both solstice days and the last days of the year, every two-hour slot, over the hot years
	for _, y := range gen.HotYears() {
		if !ev.Mine(y) || (!ev.Thorough() && y%5 != 0) {
			continue
		}
		ts := gen.Terms(y)
		days := []ref.DT{ts[13], ts[25], ts[25].AddDays(3), {Y: y, M: 12, D: 31}, {Y: y, M: 1, D: 1}, {Y: y, M: 6, D: 1}}
		for _, d := range days {
			if d.Y != y {
				continue
			}
			for h := 0; h < 24; h += 1 {
				if h%2 == 0 && h != 0 && !ev.Thorough() {
					continue
				}
				m := ref.DT{Y: d.Y, M: d.M, D: d.D, H: h, Mi: 30}
				routes.Eval(momentCase{m, 2})
				eightChar.Eval(momentCase{m, 1 + h%2})
			}
		}
	}
	// Lichun day, one hour before the instant, of every hot year (the year pillar changes xun in 甲 years)
	for _, y := range gen.HotYears() {
		if ev.Mine(y) {
			x := gen.Terms(y)[4]
			if b := ref.FromSec(x.Sec() - 3600); b.D == x.D {
				routes.Eval(momentCase{b, 2})
				eightChar.Eval(momentCase{b, 1 + y%2})
			}
		}
	}
	routes.Rapid(ev.Share(ev.Pick(8000, 200000)), func(t *rapid.T) momentCase { return momentCase{genMoment(t), rapid.IntRange(1, 2).Draw(t, "sect")} })
	eightChar.Rapid(ev.Share(ev.Pick(8000, 200000)), func(t *rapid.T) momentCase { return momentCase{genMoment(t), rapid.IntRange(1, 2).Draw(t, "sect")} })
}
