//go:build verif

// C12 — fortune periods chain contiguously and match pillars and calendar years.
package c12

import (
	"fmt"
	"strings"
	"testing"

	"github.com/6tail/lunar-go/calendar"
	"pgregory.net/rapid"
	"verif/internal/ev"
	"verif/internal/gen"
	"verif/internal/ref"
)

func TestMain(m *testing.M) { ev.Main(m, "C12") }

type birthCase struct {
	T      ref.DT
	Gender int // 1 male, 0 female
	Sect   int // fortune school 1 | 2
}

func jies(y int) []ref.DT {
	ts := gen.Terms(y)
	var out []ref.DT
	for i := 0; i < len(ts); i += 2 {
		out = append(out, ts[i])
	}
	return out
}

func slot(x ref.DT) int {
	if x.H == 23 {
		return 11
	}
	return ((x.H + 1) / 2) % 12
}

func floorMin(x ref.DT) int64 { return int64(ref.JDN(x.Y, x.M, x.D))*1440 + int64(x.H*60+x.Mi) }

type expect struct {
	forward       bool
	y, m, d, h    int
	start         ref.DT
	prev, next    ref.DT
	monthP, hourP int
	nearJieSec    int64
}

func model(c birthCase) (expect, error) {
	t := c.T
	var e expect
	js := jies(t.Y)
	now := t.Sec()
	k := 0
	pi, ni := -1, -1
	for i, x := range js {
		if x.Sec() <= now {
			k++
			pi = i
		} else if ni < 0 {
			ni = i
		}
	}
	if pi < 0 || ni < 0 {
		return e, fmt.Errorf("model: no neighbouring Jie for %v", t)
	}
	e.prev, e.next = js[pi], js[ni]
	a := 12*(t.Y-1) + 9 + k
	yearEx := ref.YearPillar(ref.FloorDiv(a, 12))
	e.monthP = ref.MonthPillar(ref.FloorDiv(a, 12), ref.Mod(a, 12))
	yang := yearEx%10%2 == 0
	e.forward = yang == (c.Gender == 1)
	start, end := e.prev, t
	if e.forward {
		start, end = t, e.next
	}
	if d1, d2 := now-e.prev.Sec(), e.next.Sec()-now; d1 < d2 {
		e.nearJieSec = d1
	} else {
		e.nearJieSec = d2
	}
	if c.Sect == 2 {
		mins := floorMin(end) - floorMin(start)
		e.y = int(mins / 4320)
		e.m = int(mins % 4320 / 360)
		e.d = int(mins % 360 / 12)
		e.h = int(mins%12) * 2
	} else {
		days := ref.JDN(end.Y, end.M, end.D) - ref.JDN(start.Y, start.M, start.D)
		n := 12*days + slot(end) - slot(start)
		total := 10 * n
		e.y, e.m, e.d, e.h = total/360, total%360/30, total%30, 0
	}
	// start date: + years (Feb 29 clamps), + months (day clamps), + days, + hours
	s := t
	yy := s.Y + e.y
	if s.M == 2 && s.D > 28 && !ref.IsLeap(yy) {
		s.D = 28
	}
	if yy == 1582 && s.M == 10 && s.D > 4 && s.D < 15 {
		s.D += 10
	}
	s.Y = yy
	s = s.AddMonths(e.m).AddDays(e.d)
	e.start = ref.FromSec(s.Sec() + int64(e.h)*3600)
	day := ref.DayPillar(ref.JDN(t.Y, t.M, t.D))
	if t.H == 23 {
		day = (day + 1) % 60
	}
	hz := ref.HourBranch(t.H)
	e.hourP = ref.PairIndex(ref.HourStem(day%10, hz), hz)
	return e, nil
}

var fortune = ev.Register(&ev.P[birthCase]{
	Name: "fortune_chain",
	Rule: "generated birth moments (emphasis: Jie instants ±1 s/±1 min/±1 h, the Lichun day before the instant, 23:xx, Feb 28/29, early and late years) x gender x school; oracle recomputed from R-civil/R-gz and the term instants: direction = (Lichun-instant year stem is yang) == male; start offset from the distance to the next/previous Jie (school 1: 12·days + slot difference, slot(23:xx)=11, ten days per slot; school 2: whole-minute difference, 4320/360/12/×2) within months 0..11, days 0..29, hours 0..23; GetStartSolar = birth + y years + m months + d days + h hours with day clamping; period 0 = [birth year, start year − 1] with ages from 1, periods i>=1 are consecutive ten-year spans from the start year with age = year − birth year + 1; period pillar i = month pillar ± i; every annual entry carries (year − 4) mod 60 of its own year and age; monthly entries follow five-tigers from that year's stem; minor fortunes = hour pillar ± age; xun getters consistent; the counted variants GetDaYunBy(n) / GetLiuNianBy(m) / GetXiaoYunBy(m) for rotating n, m continue or cut the same chain (the pre-fortune span ignores the count); non-trivial: birth within 1 h of a Jie, at 23:xx, or start offset 0 or > 9 years",
	Check: func(c birthCase) error {
		t := c.T
		e, err := model(c)
		if err != nil {
			return err
		}
		l := gen.Solar(t).GetLunar()
		ec := l.GetEightChar()
		// the fortune is no function of the chart's day-boundary switch: one case in three flips it first (every 23:xx
		// case does, where the switch changes the day pillar)
		if t.H == 23 || (t.D+t.Mi)%3 == 0 {
			ec.SetSect(1)
		}
		yun := ec.GetYunBySect(c.Gender, c.Sect)
		w := fmt.Sprintf("%v gender=%d school=%d", t, c.Gender, c.Sect)
		if yun.GetGender() != c.Gender {
			return fmt.Errorf("%s: GetGender=%d", w, yun.GetGender())
		}
		if yun.IsForward() != e.forward {
			return fmt.Errorf("%s: IsForward=%v, model says %v", w, yun.IsForward(), e.forward)
		}
		// a second fortune object of the same chart, its start accessors read in a rotating order (each must be right
		// whichever is asked first)
		{
			y2 := ec.GetYunBySect(c.Gender, c.Sect)
			got := [4]int{-1, -1, -1, -1}
			for k := 0; k < 4; k++ {
				switch i := (k + t.D + t.H + t.S) % 4; i {
				case 0:
					got[i] = y2.GetStartYear()
				case 1:
					got[i] = y2.GetStartMonth()
				case 2:
					got[i] = y2.GetStartDay()
				case 3:
					got[i] = y2.GetStartHour()
				}
			}
			if got != [4]int{e.y, e.m, e.d, e.h} {
				return fmt.Errorf("%s: start offset read in rotated order (first: accessor %d) = %v, model says %dy %dm %dd %dh", w, (t.D+t.H+t.S)%4, got, e.y, e.m, e.d, e.h)
			}
		}
		if yun.GetStartYear() != e.y || yun.GetStartMonth() != e.m || yun.GetStartDay() != e.d || yun.GetStartHour() != e.h {
			return fmt.Errorf("%s: start offset %dy %dm %dd %dh, model says %dy %dm %dd %dh (prev Jie %v, next Jie %v)", w, yun.GetStartYear(), yun.GetStartMonth(), yun.GetStartDay(), yun.GetStartHour(), e.y, e.m, e.d, e.h, e.prev, e.next)
		}
		if e.m < 0 || e.m > 11 || e.d < 0 || e.d > 29 || e.h < 0 || e.h > 23 || e.y < 0 {
			return fmt.Errorf("%s: offset out of range %d/%d/%d/%d", w, e.y, e.m, e.d, e.h)
		}
		if e.start.Y > 9990 {
			return nil
		}
		if g := gen.FromSolar(yun.GetStartSolar()); g != e.start {
			return fmt.Errorf("%s: GetStartSolar=%v, model says %v", w, g, e.start)
		}
		dys := yun.GetDaYun()
		if len(dys) != 10 {
			return fmt.Errorf("%s: %d great-fortune periods", w, len(dys))
		}
		for i, d := range dys {
			wantStart, wantEnd, wantSA, wantEA := t.Y, e.start.Y-1, 1, e.start.Y-t.Y
			if i >= 1 {
				wantStart = e.start.Y + 10*(i-1)
				wantEnd = wantStart + 9
				wantSA = wantStart - t.Y + 1
				wantEA = wantSA + 9
			}
			if d.GetIndex() != i || d.GetStartYear() != wantStart || d.GetEndYear() != wantEnd || d.GetStartAge() != wantSA || d.GetEndAge() != wantEA {
				return fmt.Errorf("%s: period %d = years %d..%d ages %d..%d, model says %d..%d ages %d..%d", w, i, d.GetStartYear(), d.GetEndYear(), d.GetStartAge(), d.GetEndAge(), wantStart, wantEnd, wantSA, wantEA)
			}
			if i > 0 && dys[i-1].GetEndYear()+1 != d.GetStartYear() {
				return fmt.Errorf("%s: period %d starts %d but period %d ends %d", w, i, d.GetStartYear(), i-1, dys[i-1].GetEndYear())
			}
			wantGZ := ""
			if i >= 1 {
				if e.forward {
					wantGZ = ref.Pair(e.monthP + i)
				} else {
					wantGZ = ref.Pair(e.monthP - i)
				}
			}
			if d.GetGanZhi() != wantGZ {
				return fmt.Errorf("%s: period %d pillar %q, model says %q (month pillar %s, forward=%v)", w, i, d.GetGanZhi(), wantGZ, ref.Pair(e.monthP), e.forward)
			}
			lns := d.GetLiuNian()
			xys := d.GetXiaoYun()
			wantN := 10
			if i == 0 {
				wantN = wantEnd - wantStart + 1
				if wantN < 0 {
					wantN = 0
				}
			}
			if len(lns) != wantN || len(xys) != wantN {
				return fmt.Errorf("%s: period %d has %d annual and %d minor entries, want %d", w, i, len(lns), len(xys), wantN)
			}
			if i > 2 && i < 9 && !ev.Thorough() {
				continue
			}
			for k, ln := range lns {
				yr := wantStart + k
				age := wantSA + k
				if ln.GetIndex() != k || ln.GetYear() != yr || ln.GetAge() != age {
					return fmt.Errorf("%s: period %d annual %d = year %d age %d, model says %d / %d", w, i, k, ln.GetYear(), ln.GetAge(), yr, age)
				}
				if age != yr-t.Y+1 {
					return fmt.Errorf("%s: model age mismatch", w)
				}
				if g := ln.GetGanZhi(); g != ref.Pair(ref.YearPillar(yr)) {
					return fmt.Errorf("%s: annual fortune of %d carries %s, its calendar year is %s", w, yr, g, ref.Pair(ref.YearPillar(yr)))
				}
				if k == 0 || k == 9 || ev.Thorough() {
					lys := ln.GetLiuYue()
					if len(lys) != 12 {
						return fmt.Errorf("%s: %d monthly entries", w, len(lys))
					}
					for mi, ly := range lys {
						if ly.GetIndex() != mi || ly.GetGanZhi() != ref.Pair(ref.MonthPillar(yr, mi)) {
							return fmt.Errorf("%s: monthly fortune %d of %d = %s, five-tigers gives %s", w, mi, yr, ly.GetGanZhi(), ref.Pair(ref.MonthPillar(yr, mi)))
						}
					}
				}
				x := xys[k]
				wx := e.hourP - age
				if e.forward {
					wx = e.hourP + age
				}
				if x.GetIndex() != k || x.GetYear() != yr || x.GetAge() != age || x.GetGanZhi() != ref.Pair(wx) {
					return fmt.Errorf("%s: minor fortune period %d entry %d = year %d age %d %s, model says %d / %d / %s (hour pillar %s)", w, i, k, x.GetYear(), x.GetAge(), x.GetGanZhi(), yr, age, ref.Pair(wx), ref.Pair(e.hourP))
				}
			}
		}
		// the exported constructors of the fortune objects build the same objects the getters list
		{
			y3 := calendar.NewYun(ec, c.Gender, c.Sect)
			if y3.GetStartYear() != e.y || y3.GetStartMonth() != e.m || y3.GetStartDay() != e.d || y3.GetStartHour() != e.h || y3.IsForward() != e.forward {
				return fmt.Errorf("%s: NewYun reports %dy %dm %dd %dh forward=%v, the model %dy %dm %dd %dh %v", w, y3.GetStartYear(), y3.GetStartMonth(), y3.GetStartDay(), y3.GetStartHour(), y3.IsForward(), e.y, e.m, e.d, e.h, e.forward)
			}
			for _, i := range []int{0, 1, 1 + (t.D+t.H)%9} {
				listed, built := dys[i], calendar.NewDaYun(y3, i)
				sig := func(d *calendar.DaYun) string {
					var sb strings.Builder
					fmt.Fprintf(&sb, "%d %d-%d %d-%d %s|", d.GetIndex(), d.GetStartYear(), d.GetEndYear(), d.GetStartAge(), d.GetEndAge(), d.GetGanZhi())
					lns := d.GetLiuNian()
					for k, ln := range lns {
						fmt.Fprintf(&sb, "%d:%d/%d/%s;", k, ln.GetYear(), ln.GetAge(), ln.GetGanZhi())
						if k == 0 || k == len(lns)-1 {
							for _, ly := range ln.GetLiuYue() {
								sb.WriteString(ly.GetGanZhi())
							}
						}
					}
					for _, x := range d.GetXiaoYun() {
						fmt.Fprintf(&sb, "%d/%s,", x.GetYear(), x.GetGanZhi())
					}
					if len(lns) > 0 {
						k := (t.D + t.Mi) % len(lns)
						ln := calendar.NewLiuNian(d, k)
						xy := calendar.NewXiaoYun(d, k, e.forward)
						fmt.Fprintf(&sb, "|new:%d/%s/%s %d/%s %s", ln.GetYear(), ln.GetGanZhi(), calendar.NewLiuYue(ln, 1+k%11).GetGanZhi(), xy.GetYear(), xy.GetGanZhi(), calendar.NewLiuYue(lns[k], 1+k%11).GetGanZhi())
					}
					return sb.String()
				}
				if a, b := sig(listed), sig(built); a != b {
					return fmt.Errorf("%s: period %d built with NewDaYun differs from the one GetDaYun lists:\n listed: %.400s\n built:  %.400s", w, i, a, b)
				}
			}
		}
		// the counted variants: any count continues (or cuts) the same chain; the pre-fortune span ignores the count
		n := 1 + (t.D+t.H+t.Mi)%14
		by := yun.GetDaYunBy(n)
		if len(by) != n {
			return fmt.Errorf("%s: GetDaYunBy(%d) has %d periods", w, n, len(by))
		}
		for i, d := range by {
			wantStart, wantEnd, wantGZ := t.Y, e.start.Y-1, ""
			if i >= 1 {
				wantStart = e.start.Y + 10*(i-1)
				wantEnd = wantStart + 9
				if e.forward {
					wantGZ = ref.Pair(e.monthP + i)
				} else {
					wantGZ = ref.Pair(e.monthP - i)
				}
			}
			if d.GetIndex() != i || d.GetStartYear() != wantStart || d.GetEndYear() != wantEnd || d.GetGanZhi() != wantGZ || d.GetStartAge() != wantStart-t.Y+1 {
				return fmt.Errorf("%s: GetDaYunBy(%d)[%d] = %d..%d %q age %d, the chain gives %d..%d %q age %d", w, n, i, d.GetStartYear(), d.GetEndYear(), d.GetGanZhi(), d.GetStartAge(), wantStart, wantEnd, wantGZ, wantStart-t.Y+1)
			}
			if i != 0 && i != n-1 {
				continue
			}
			m := 1 + (t.D+t.S+i)%13
			lns, xys := d.GetLiuNianBy(m), d.GetXiaoYunBy(m)
			wantN := m
			if i == 0 {
				wantN = wantEnd - wantStart + 1
			}
			if len(lns) != wantN || len(xys) != wantN {
				return fmt.Errorf("%s: period %d GetLiuNianBy(%d)/GetXiaoYunBy(%d) have %d/%d entries, want %d", w, i, m, m, len(lns), len(xys), wantN)
			}
			ten := d.GetXiaoYun()
			for k := range lns {
				if lns[k].GetIndex() != k || lns[k].GetYear() != wantStart+k || lns[k].GetAge() != wantStart+k-t.Y+1 || lns[k].GetGanZhi() != ref.Pair(ref.YearPillar(wantStart+k)) {
					return fmt.Errorf("%s: period %d GetLiuNianBy(%d)[%d] = year %d age %d %s, the chain gives %d / %d / %s", w, i, m, k, lns[k].GetYear(), lns[k].GetAge(), lns[k].GetGanZhi(), wantStart+k, wantStart+k-t.Y+1, ref.Pair(ref.YearPillar(wantStart+k)))
				}
				if xys[k].GetIndex() != k || xys[k].GetYear() != wantStart+k || xys[k].GetAge() != lns[k].GetAge() || (k < len(ten) && xys[k].GetGanZhi() != ten[k].GetGanZhi()) {
					return fmt.Errorf("%s: period %d GetXiaoYunBy(%d)[%d] = year %d age %d %s, the default list's entry is %d / %d", w, i, m, k, xys[k].GetYear(), xys[k].GetAge(), xys[k].GetGanZhi(), wantStart+k, lns[k].GetAge())
				}
				if k > 0 {
					step := 1
					if !e.forward {
						step = -1
					}
					if ref.PairIndexOf(xys[k].GetGanZhi()) != ref.Mod(ref.PairIndexOf(xys[k-1].GetGanZhi())+step, 60) {
						return fmt.Errorf("%s: period %d GetXiaoYunBy(%d): entry %d %s does not follow entry %d %s (forward=%v)", w, i, m, k, xys[k].GetGanZhi(), k-1, xys[k-1].GetGanZhi(), e.forward)
					}
				}
			}
		}
		return nil
	},
	Class: func(c birthCase) ([]string, bool) {
		e, err := model(c)
		ls := []string{gen.Era(c.T.Y), fmt.Sprintf("school:%d", c.Sect), fmt.Sprintf("gender:%d", c.Gender)}
		if err != nil {
			return ls, false
		}
		nt := false
		if e.nearJieSec <= 3600 {
			ls, nt = append(ls, "within1hOfJie"), true
		}
		if e.nearJieSec <= 1 {
			ls = append(ls, "within1sOfJie")
		}
		if c.T.H == 23 {
			ls, nt = append(ls, "hour23"), true
		}
		if e.y == 0 && e.m == 0 && e.d == 0 && e.h == 0 {
			ls, nt = append(ls, "zeroOffset"), true
		}
		if e.y == 0 {
			ls = append(ls, "startInBirthYearPossible")
		}
		if e.y > 9 {
			ls, nt = append(ls, "offsetOver9y"), true
		}
		if e.forward {
			ls = append(ls, "forward")
		} else {
			ls = append(ls, "backward")
		}
		// Lichun day before the instant: the day-level and instant-level year stems differ
		l := gen.Solar(c.T).GetLunar()
		if l.GetYearGanIndexByLiChun() != l.GetYearGanIndexExact() {
			ls, nt = append(ls, "lichunDayBeforeInstant"), true
		}
		return ls, nt
	},
	Require: []string{"within1hOfJie", "within1sOfJie", "hour23", "zeroOffset", "offsetOver9y", "forward", "backward", "lichunDayBeforeInstant", "school:1", "school:2"},
})

func genBirth(t *rapid.T) birthCase {
	var m ref.DT
	switch rapid.IntRange(0, 6).Draw(t, "kind") {
	case 0, 1:
		y := gen.Year(t, 2, 9700)
		js := jies(y)
		x := js[rapid.IntRange(1, len(js)-2).Draw(t, "jie")]
		off := rapid.SampledFrom([]int64{0, 1, -1, 59, 60, -60, 61, 3599, 3600, -3600, 7199, 7200, -7200, 86400, -86400}).Draw(t, "off")
		m = ref.FromSec(x.Sec() + off)
		if m.Y < 2 || m.Y > 9700 {
			m = x
		}
	case 2: // Lichun day, before / after the instant
		y := gen.Year(t, 2, 9700)
		x := gen.Terms(y)[4]
		h, mi, s := gen.Time(t)
		m = ref.DT{Y: x.Y, M: x.M, D: x.D, H: h, Mi: mi, S: s}
	case 3:
		m = gen.MomentIn(t, 2, 9700)
		m.H = 23
	case 4, 6:
		y := gen.Year(t, 2, 9700)
		d := 28
		forced := rapid.Bool().Draw(t, "leapYear")
		if forced && y >= 8 {
			y -= y % 4
		}
		if ref.IsLeap(y) && (forced || rapid.Bool().Draw(t, "feb29")) {
			d = 29
		}
		h, mi, s := gen.Time(t)
		m = ref.DT{Y: y, M: 2, D: d, H: h, Mi: mi, S: s}
		if d == 29 && rapid.IntRange(0, 3).Draw(t, "structuredOffset") > 0 {
			// a leap-day birth whose minute-school start offset (3 days = 1 year: 4320 min a year, 360 a month, 12 a day) has a
			// day component at a month edge: the start date is the leap day moved by whole years (clamped to Feb 28) and then
			// by months and days, so the edges of the day component are where the two orders of stepping part
			ts := gen.Terms(y)
			x, sign := ts[6], int64(-1) // forward: counted up to Jingzhe
			if rapid.Bool().Draw(t, "fromLichun") {
				x, sign = ts[4], 1 // backward: counted from Lichun
			}
			day0 := ref.DT{Y: y, M: 2, D: 29}.Sec()
			lo := (x.Sec() - (day0 + 86399)) / 60 // minutes between the end of the leap day and the term
			if sign > 0 {
				lo = (day0 - x.Sec()) / 60
			}
			if lo < 0 {
				lo = 0
			}
			T := (lo/360+1)*360 + int64(360*rapid.IntRange(0, 3).Draw(t, "block")+12*rapid.SampledFrom([]int{0, 1, 2, 3, 28, 29}).Draw(t, "offDay")+rapid.IntRange(0, 11).Draw(t, "offHour"))
			if c := ref.FromSec(x.Sec() + sign*T*60 + int64(rapid.IntRange(0, 59).Draw(t, "sec"))); c.M == 2 && c.D == 29 {
				m = c
			}
		}
	default:
		m = gen.MomentIn(t, 2, 9700)
	}
	return birthCase{m, rapid.IntRange(0, 1).Draw(t, "gender"), rapid.IntRange(1, 2).Draw(t, "school")}
}

func TestC12(t *testing.T) {
	ev.Assume("neighbouring Jie instants come from the civil year's term table (C03); pillars of the birth moment from R-gz (C05)")
	// deterministic: every Jie of a few years at 0 / ±1 s / ±1 min, all four configurations
	ys := []int{2, 19, 1582, 1900, 1984, 2000, 2019, 2020, 2024, 2100, 9700}
	if ev.Thorough() {
		for y := 1900; y <= 2100; y++ {
			ys = append(ys, y)
		}
	}
	for i, y := range ys {
		if !ev.Mine(i) {
			continue
		}
		js := jies(y)
		for _, x := range js[1 : len(js)-1] {
			for _, off := range []int64{0, -1, 1, -60, 60} {
				m := ref.FromSec(x.Sec() + off)
				if m.Y != y {
					continue
				}
				for g := 0; g <= 1; g++ {
					for s := 1; s <= 2; s++ {
						fortune.Eval(birthCase{m, g, s})
					}
				}
			}
		}
	}
	// births whose lunar year differs from the civil year in either direction (the lunar year runs AHEAD of the civil
	// year on the last days of AD 15 and AD 18 only), all four configurations
	if ev.Shard == 0 {
		for _, d := range []ref.DT{{Y: 15, M: 12, D: 30}, {Y: 15, M: 12, D: 31}, {Y: 18, M: 12, D: 27}, {Y: 18, M: 12, D: 29}, {Y: 18, M: 12, D: 31}, {Y: 19, M: 1, D: 1}, {Y: 16, M: 1, D: 1},
			{Y: 2024, M: 1, D: 5}, {Y: 2024, M: 2, D: 9}, {Y: 1582, M: 1, D: 5}, {Y: 240, M: 1, D: 20}} {
			for _, h := range []int{0, 11, 23} {
				for g := 0; g <= 1; g++ {
					for s := 1; s <= 2; s++ {
						d.H, d.Mi = h, 20
						fortune.Eval(birthCase{d, g, s})
					}
				}
			}
		}
	}
	fortune.Rapid(ev.Share(ev.Pick(4000, 120000)), genBirth)
	_ = calendar.J2000
}
