//go:build verif

// C13 — seasonal counters and movable festivals follow their term-and-stem rules.
package c13

import (
	"container/list"
	"fmt"
	"testing"

	"github.com/6tail/lunar-go/LunarUtil"
	"github.com/6tail/lunar-go/calendar"
	"pgregory.net/rapid"
	"verif/internal/ev"
	"verif/internal/gen"
	"verif/internal/ref"
)

func TestMain(m *testing.M) { ev.Main(m, "C13") }

type dayCase struct{ J int }

func jd(x ref.DT) int { return ref.JDN(x.Y, x.M, x.D) }
func stem(j int) int  { return ref.DayPillar(j) % 10 }
func has(l *list.List, s string) bool {
	for e := l.Front(); e != nil; e = e.Next() {
		if e.Value.(string) == s {
			return true
		}
	}
	return false
}
func count(l *list.List, s string) int {
	n := 0
	for e := l.Front(); e != nil; e = e.Next() {
		if e.Value.(string) == s {
			n++
		}
	}
	return n
}

// nthStemDay returns the n-th day (n>=1) on or after j whose stem is g.
func nthStemDay(j, g, n int) int {
	for k := 0; ; k++ {
		if stem(j+k) == g {
			n--
			if n == 0 {
				return j + k
			}
		}
	}
}

var termNames = []string{"大雪", "冬至", "小寒", "大寒", "立春", "雨水", "惊蛰", "春分", "清明", "谷雨", "立夏", "小满", "芒种", "夏至", "小暑", "大暑", "立秋", "处暑", "白露", "秋分", "寒露", "霜降", "立冬", "小雪", "大雪", "冬至", "小寒", "大寒", "立春", "雨水", "惊蛰"}

type want struct {
	shuJiu          string
	shuJiuIdx       int
	fu              string
	fuIdx           int
	hou, wuHou      string
	chuXi, hanShi   bool
	chunShe, qiuShe bool
	edge            []string
}

func model(j int) want {
	y, _, _ := ref.FromJDN(j)
	ts := gen.Terms(y)
	var w want
	// nine-nines: 81 days from the latest winter-solstice day <= today
	dz := jd(ts[1])
	if jd(ts[25]) <= j {
		dz = jd(ts[25])
	}
	if k := j - dz; k >= 0 && k < 81 {
		w.shuJiu, w.shuJiuIdx = LunarUtil.NUMBER[k/9+1]+"九", k%9+1
		if k == 0 || k == 80 || k%9 == 0 || k%9 == 8 {
			w.edge = append(w.edge, "shuJiuEdge")
		}
	} else if k == 81 || k == -1 {
		w.edge = append(w.edge, "shuJiuOutsideEdge")
	}
	// dog days
	chu := nthStemDay(jd(ts[13]), 6, 3)
	zhong := chu + 10
	mo := nthStemDay(jd(ts[16]), 6, 1)
	if mo-zhong != 10 && mo-zhong != 20 {
		w.edge = append(w.edge, "MODEL-middle-not-10-or-20")
	}
	switch {
	case j >= chu && j < zhong:
		w.fu, w.fuIdx = "初伏", j-chu+1
	case j >= zhong && j < mo:
		w.fu, w.fuIdx = "中伏", j-zhong+1
	case j >= mo && j < mo+10:
		w.fu, w.fuIdx = "末伏", j-mo+1
	}
	if j == chu-1 || j == chu || j == zhong-1 || j == zhong || j == mo-1 || j == mo || j == mo+9 || j == mo+10 {
		w.edge = append(w.edge, "fuEdge")
	}
	if stem(jd(ts[13])) == 6 {
		w.edge = append(w.edge, "solsticeIsGeng")
	}
	if mo-zhong == 20 {
		w.edge = append(w.edge, "middle20")
	} else {
		w.edge = append(w.edge, "middle10")
	}
	// pentads
	ti := -1
	for i, x := range ts {
		if jd(x) <= j {
			ti = i
		}
	}
	off := (j - jd(ts[ti])) / 5
	if off > 2 {
		off = 2
	}
	if (j-jd(ts[ti]))%5 == 0 || (ti+1 < len(ts) && jd(ts[ti+1]) == j+1) {
		w.edge = append(w.edge, "pentadEdge")
	}
	w.hou = termNames[ti] + " " + LunarUtil.HOU[off]
	canon := (ti + 23) % 24 // index in JIE_QI (冬至 = 0): table index 1 is 冬至
	w.wuHou = LunarUtil.WU_HOU[(3*canon+off)%72]
	// movable festivals
	w.hanShi = j+1 == jd(ts[8])
	w.chunShe = j == nthStemDay(jd(ts[4]), 4, 5)
	w.qiuShe = j == nthStemDay(jd(ts[16]), 4, 5)
	return w
}

var counters = ev.Register(&ev.P[dayCase]{
	Name: "counters_and_movable_festivals",
	Rule: "every civil day of the sweep years (hot years + generated years in quick, all years 1..9998 in thorough) plus generated days around both solstices, Liqiu, Lichun, Qingming and lunar year ends; oracle by literal re-derivation from R-civil day numbers, R-gz day stems and the term days: nine-nines = day k of the 81 from the latest winter-solstice day (name NUMBER[k/9+1]+九, index k%9+1, nil otherwise); dog days by scanning for the third geng day on/after the summer solstice, +10, first geng day on/after Liqiu (middle 10 or 20 days), last 10 days, index +1 per day, nil outside; pentad = floor((today − term day)/5) capped at 2 mapped onto the 72 names with 冬至 = 0; 除夕 <=> tomorrow's lunar year differs; 寒食节 <=> tomorrow is Qingming day; 春社/秋社 <=> today is the fifth wu day counted from Lichun/Liqiu day inclusive; each reported at most once; non-trivial: first/last day of a counter or pentad, a geng solstice, a lunar year end, or a She/Hanshi day",
	Check: func(c dayCase) error {
		j := c.J
		y, mo, d := ref.FromJDN(j)
		// the counters and festivals are day-level facts: the clock time of the object must not matter,
		// so it rotates with the day number (midnight every fifth day)
		h, mi, sec := (j*7)%24, (j*11)%60, (j*13)%60
		if j%5 == 0 {
			h, mi, sec = 0, 0, 0
		}
		l := calendar.NewSolar(y, mo, d, h, mi, sec).GetLunar()
		// the object is not fresh when the counters are read: one of the term look-ups (by instant or by whole day,
		// backwards or forwards) has been asked first, which one rotates with the day
		switch j % 9 {
		case 1:
			_ = l.GetPrevJieQi()
		case 2:
			_ = l.GetNextJieQiByWholeDay(true)
		case 3:
			_ = l.GetPrevJieQiByWholeDay(false)
		case 4:
			_ = l.GetNextJie()
		case 5:
			_ = l.GetPrevQiByWholeDay(true)
		case 6:
			_ = l.GetCurrentJieQi()
		case 7:
			_ = l.GetNextQiByWholeDay(false)
		}
		w := model(j)
		day := fmt.Sprintf("%04d-%02d-%02d %02d:%02d:%02d", y, mo, d, h, mi, sec)
		for _, e := range w.edge {
			if e == "MODEL-middle-not-10-or-20" {
				return fmt.Errorf("%s: the middle dog-day period would be neither 10 nor 20 days (summer solstice, Liqiu and geng days inconsistent)", day)
			}
		}
		sj := l.GetShuJiu()
		if (sj == nil) != (w.shuJiu == "") {
			return fmt.Errorf("%s: GetShuJiu nil=%v, model says %q", day, sj == nil, w.shuJiu)
		}
		if sj != nil && (sj.GetName() != w.shuJiu || sj.GetIndex() != w.shuJiuIdx) {
			return fmt.Errorf("%s: nine-nines %s day %d, model says %s day %d", day, sj.GetName(), sj.GetIndex(), w.shuJiu, w.shuJiuIdx)
		}
		fu := l.GetFu()
		if (fu == nil) != (w.fu == "") {
			return fmt.Errorf("%s: GetFu nil=%v, model says %q day %d", day, fu == nil, w.fu, w.fuIdx)
		}
		if fu != nil && (fu.GetName() != w.fu || fu.GetIndex() != w.fuIdx) {
			return fmt.Errorf("%s: dog days %s day %d, model says %s day %d", day, fu.GetName(), fu.GetIndex(), w.fu, w.fuIdx)
		}
		if l.GetHou() != w.hou {
			return fmt.Errorf("%s: GetHou %q, model says %q", day, l.GetHou(), w.hou)
		}
		if l.GetWuHou() != w.wuHou {
			return fmt.Errorf("%s: GetWuHou %q, model says %q", day, l.GetWuHou(), w.wuHou)
		}
		// New Year's Eve
		chuXi := false
		if j < ref.JDNMax {
			y2, m2, d2 := ref.FromJDN(j + 1)
			chuXi = calendar.NewSolarFromYmd(y2, m2, d2).GetLunar().GetYear() != l.GetYear()
		}
		fs := l.GetFestivals()
		if n := count(fs, "除夕"); (n == 1) != chuXi || n > 1 {
			return fmt.Errorf("%s (lunar %d/%d/%d): 除夕 reported %d times, last day of the lunar year = %v", day, l.GetYear(), l.GetMonth(), l.GetDay(), n, chuXi)
		}
		of := l.GetOtherFestivals()
		for _, x := range []struct {
			name string
			want bool
		}{{"寒食节", w.hanShi}, {"春社", w.chunShe}, {"秋社", w.qiuShe}} {
			if n := count(of, x.name); (n == 1) != x.want || n > 1 {
				return fmt.Errorf("%s: %s reported %d times, model says %v", day, x.name, n, x.want)
			}
		}
		return nil
	},
	Class: func(c dayCase) ([]string, bool) {
		w := model(c.J)
		y, mo, d := ref.FromJDN(c.J)
		ls := []string{gen.Era(y)}
		nt := false
		ls = append(ls, w.edge...)
		for _, e := range w.edge {
			if e != "middle10" && e != "middle20" {
				nt = true
			}
		}
		if w.hanShi || w.chunShe || w.qiuShe {
			ls, nt = append(ls, "movableFestival"), true
		}
		l := calendar.NewSolarFromYmd(y, mo, d).GetLunar()
		if has(l.GetFestivals(), "除夕") || (l.GetDay() >= 28 && (l.GetMonth() == 12 || l.GetMonth() == -12 || l.GetMonth() == 11)) {
			ls, nt = append(ls, "nearLunarYearEnd"), true
		}
		if lp := calendar.NewLunarYear(l.GetYear()).GetLeapMonth(); lp == 12 || lp == 11 {
			ls = append(ls, "leap12Year")
		}
		if w.fu != "" {
			ls = append(ls, "inFu")
		}
		if w.shuJiu != "" {
			ls = append(ls, "inShuJiu")
		}
		return ls, nt
	},
	Disjoint: false,
	Require:  []string{"leap12Year", "shuJiuEdge", "shuJiuOutsideEdge", "fuEdge", "solsticeIsGeng", "middle10", "middle20", "pentadEdge", "movableFestival", "nearLunarYearEnd"},
})

func TestC13(t *testing.T) {
	ev.Assume("term days come from the civil year's term table (C03); day stems from R-gz (C05)")
	years := gen.HotYears()
	if ev.Thorough() {
		years = nil
		for y := 1; y <= 9998; y++ {
			years = append(years, y)
		}
		counters.Exhaustive("every civil day 0001-01-01..9998-12-31")
	}
	for _, y := range years {
		if !ev.Mine(y) || (!ev.Thorough() && y > 30 && y%4 != 0 && y != 1582 && !(y >= 234 && y <= 242)) {
			continue
		}
		for j := ref.JDN(y, 1, 1); j <= ref.JDN(y, 12, 31); j++ {
			counters.Eval(dayCase{j})
		}
	}
	// every term of every year that falls within a minute of midnight (a handful per millennium): the eve, the day and
	// the days after — where "the term's day" is decided by a second
	for y := 1; y <= 9998; y++ {
		if !ev.Mine(y) {
			continue
		}
		for _, x := range gen.Terms(y) {
			if tod := x.H*3600 + x.Mi*60 + x.S; x.Y == y && (tod <= 60 || tod >= 86340) {
				for d := -2; d <= 6; d++ {
					if j := jd(x) + d; j >= ref.JDNMin+1 && j <= ref.JDNMax-1 {
						counters.Eval(dayCase{j})
					}
				}
			}
		}
	}
	// a dense window asked again in scrambled order (same oracle, different predecessor)
	{
		start := ref.JDN(2020, 1, 1) + ev.Shard*250
		for _, perm := range ev.Shuffled(500, ev.Pick(2, 8), 13) {
			for _, k := range perm {
				counters.Eval(dayCase{start + k})
			}
		}
	}
	counters.Rapid(ev.Share(ev.Pick(16000, 160000)), func(t *rapid.T) dayCase {
		y := gen.Year(t, 1, 9998)
		ts := gen.Terms(y)
		var j int
		switch rapid.IntRange(0, 6).Draw(t, "kind") {
		case 0:
			j = jd(ts[rapid.SampledFrom([]int{1, 25}).Draw(t, "dz")]) + rapid.SampledFrom([]int{-1, 0, 1, 8, 9, 44, 45, 72, 79, 80, 81, 82}).Draw(t, "k")
		case 1:
			j = jd(ts[13]) + rapid.IntRange(18, 32).Draw(t, "chu")
		case 2:
			j = jd(ts[16]) + rapid.IntRange(-12, 22).Draw(t, "liqiu")
		case 3:
			j = jd(ts[rapid.SampledFrom([]int{4, 16}).Draw(t, "she")]) + rapid.IntRange(38, 52).Draw(t, "sheOff")
		case 4:
			j = jd(ts[8]) + rapid.IntRange(-2, 1).Draw(t, "qingming")
		case 5:
			if rapid.Bool().Draw(t, "monthEnd") && y < 9998 {
				// the last days of the last three months of the lunar year (a leap 12th month may follow month 12)
				ly := calendar.NewLunarYear(y)
				var ms []*calendar.LunarMonth
				for e := ly.GetMonthsInYear().Front(); e != nil; e = e.Next() {
					ms = append(ms, e.Value.(*calendar.LunarMonth))
				}
				m := ms[len(ms)-1-rapid.IntRange(0, 2).Draw(t, "lastMonths")]
				j = int(m.GetFirstJulianDay()+0.5) + m.GetDayCount() - 1 + rapid.IntRange(-1, 1).Draw(t, "endDelta")
			} else {
				j = gen.NewYearJDN(y) + rapid.IntRange(-3, 1).Draw(t, "ny")
			}
		default:
			j = gen.DayIn(t, y)
		}
		if j < ref.JDNMin {
			j = ref.JDNMin
		}
		if j > ref.JDNMax {
			j = ref.JDNMax
		}
		return dayCase{j}
	})
}
