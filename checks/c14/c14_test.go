//go:build verif

// C14 — holiday queries are views of one record set; workday stepping matches it.
package c14

import (
	"container/list"
	"fmt"
	"sort"
	"strings"
	"testing"

	"github.com/6tail/lunar-go/HolidayUtil"
	"github.com/6tail/lunar-go/calendar"
	"pgregory.net/rapid"
	"verif/internal/ev"
	"verif/internal/gen"
	"verif/internal/ref"
)

func TestMain(m *testing.M) { ev.Main(m, "C14") }

// R-holiday: independent parse of the 18-character records
type rec struct {
	Day    string // YYYYMMDD
	Name   int
	Work   bool
	Target string // YYYYMMDD
}

func parseTable(data string) ([]rec, error) {
	if len(data)%18 != 0 {
		return nil, fmt.Errorf("table length %d is not a multiple of 18", len(data))
	}
	var out []rec
	for i := 0; i+18 <= len(data); i += 18 {
		s := data[i : i+18]
		out = append(out, rec{Day: s[0:8], Name: int(s[8] - '0'), Work: s[9] == '0', Target: s[10:18]})
	}
	return out, nil
}

func dash(s string) string { return s[0:4] + "-" + s[4:6] + "-" + s[6:8] }

func sorted(rs []rec) []rec {
	out := append([]rec(nil), rs...)
	sort.SliceStable(out, func(i, j int) bool { return out[i].Day < out[j].Day })
	return out
}

func render(r rec, names []string) string {
	n := "?"
	if r.Name >= 0 && r.Name < len(names) {
		n = names[r.Name]
	}
	return fmt.Sprintf("%s|%s|%v|%s", dash(r.Day), n, r.Work, dash(r.Target))
}

func renderH(h *HolidayUtil.Holiday) string {
	if h == nil {
		return "nil"
	}
	return fmt.Sprintf("%s|%s|%v|%s", h.GetDay(), h.GetName(), h.IsWork(), h.GetTarget())
}

func renderL(l *list.List) []string {
	var out []string
	for e := l.Front(); e != nil; e = e.Next() {
		out = append(out, renderH(e.Value.(*HolidayUtil.Holiday)))
	}
	return out
}

func eqList(a, b []string) bool { return strings.Join(a, ";") == strings.Join(b, ";") }

// compareViews checks every view of the library against the model record set.
// keys limits the work: days / months / years / targets to query (nil = derive all from the model).
func compareViews(model []rec, names []string, extraDays []string) error {
	ms := sorted(model)
	byDay := map[string]rec{}
	months, years, targets := map[string]bool{}, map[string]bool{}, map[string]bool{}
	for _, r := range ms {
		if _, dup := byDay[r.Day]; dup {
			return fmt.Errorf("model: duplicate day %s", r.Day)
		}
		byDay[r.Day] = r
		months[r.Day[:6]], years[r.Day[:4]], targets[r.Target] = true, true, true
	}
	for _, r := range ms {
		want := render(r, names)
		for _, q := range []string{r.Day, dash(r.Day)} {
			if g := renderH(HolidayUtil.GetHoliday(q)); g != want {
				return fmt.Errorf("GetHoliday(%q) = %s, record set has %s", q, g, want)
			}
			if g := renderL(HolidayUtil.GetHolidays(q)); !eqList(g, []string{want}) {
				return fmt.Errorf("GetHolidays(%q) = %v, record set has [%s]", q, g, want)
			}
		}
		y, m, d := atoi(r.Day[0:4]), atoi(r.Day[4:6]), atoi(r.Day[6:8])
		if g := renderH(HolidayUtil.GetHolidayByYmd(y, m, d)); g != want {
			return fmt.Errorf("GetHolidayByYmd(%d,%d,%d) = %s, record set has %s", y, m, d, g, want)
		}
	}
	for _, dday := range extraDays {
		if _, ok := byDay[dday]; ok {
			continue
		}
		if h := HolidayUtil.GetHoliday(dday); h != nil {
			return fmt.Errorf("GetHoliday(%q) = %s but the record set has no record for that day", dday, renderH(h))
		}
		if l := HolidayUtil.GetHolidays(dash(dday)); l.Len() != 0 {
			return fmt.Errorf("GetHolidays(%q) = %v but the record set has no record for that day", dash(dday), renderL(l))
		}
	}
	filter := func(f func(rec) bool) []string {
		var out []string
		for _, r := range ms {
			if f(r) {
				out = append(out, render(r, names))
			}
		}
		return out
	}
	for ym := range months {
		want := filter(func(r rec) bool { return r.Day[:6] == ym })
		if g := renderL(HolidayUtil.GetHolidaysByYm(atoi(ym[:4]), atoi(ym[4:6]))); !eqList(g, want) {
			return fmt.Errorf("GetHolidaysByYm(%s) = %v, record set in date order has %v", ym, g, want)
		}
		if g := renderL(HolidayUtil.GetHolidays(ym)); !eqList(g, want) {
			return fmt.Errorf("GetHolidays(%q) = %v, record set has %v", ym, g, want)
		}
	}
	for y := range years {
		want := filter(func(r rec) bool { return r.Day[:4] == y })
		if g := renderL(HolidayUtil.GetHolidaysByYear(atoi(y))); !eqList(g, want) {
			return fmt.Errorf("GetHolidaysByYear(%s) has %d records %v, record set in date order has %d: %v", y, len(g), brief(g), len(want), brief(want))
		}
	}
	// months / years without records give empty lists
	for _, ym := range []string{"200101", "199912", "203012"} {
		if !months[ym] {
			if l := HolidayUtil.GetHolidaysByYm(atoi(ym[:4]), atoi(ym[4:6])); l.Len() != 0 {
				return fmt.Errorf("GetHolidaysByYm(%s) = %v, record set has none", ym, renderL(l))
			}
		}
	}
	for t := range targets {
		want := filter(func(r rec) bool { return r.Target == t })
		if g := renderL(HolidayUtil.GetHolidaysByTarget(dash(t))); !eqList(g, want) {
			return fmt.Errorf("GetHolidaysByTarget(%s) has %d records %v, record set in date order has %d: %v", dash(t), len(g), brief(g), len(want), brief(want))
		}
		if g := renderL(HolidayUtil.GetHolidaysByTargetYmd(atoi(t[:4]), atoi(t[4:6]), atoi(t[6:8]))); !eqList(g, want) {
			return fmt.Errorf("GetHolidaysByTargetYmd(%s) = %v, record set has %v", t, brief(g), brief(want))
		}
	}
	return nil
}

func brief(xs []string) []string {
	var out []string
	for _, x := range xs {
		out = append(out, x[:10])
	}
	return out
}

func atoi(s string) int {
	n := 0
	for _, c := range s {
		n = n*10 + int(c-'0')
	}
	return n
}

// ------------------------------------------------------------------------------------------
// 1. the shipped table: all views

type tableCase struct{ Kind, Key string }

// oneView compares a single query of the library with the model record set.
func oneView(model []rec, names []string, kind, key string) error {
	ms := sorted(model)
	filter := func(f func(rec) bool) []string {
		var out []string
		for _, r := range ms {
			if f(r) {
				out = append(out, render(r, names))
			}
		}
		return out
	}
	switch kind {
	case "day":
		want := filter(func(r rec) bool { return r.Day == key })
		w1 := "nil"
		if len(want) == 1 {
			w1 = want[0]
		}
		for _, q := range []string{key, dash(key)} {
			if g := renderH(HolidayUtil.GetHoliday(q)); g != w1 {
				return fmt.Errorf("GetHoliday(%q) = %s, record set has %s", q, g, w1)
			}
			if g := renderL(HolidayUtil.GetHolidays(q)); !eqList(g, want) {
				return fmt.Errorf("GetHolidays(%q) = %v, record set has %v", q, g, want)
			}
		}
		if g := renderH(HolidayUtil.GetHolidayByYmd(atoi(key[:4]), atoi(key[4:6]), atoi(key[6:8]))); g != w1 {
			return fmt.Errorf("GetHolidayByYmd(%s) = %s, record set has %s", key, g, w1)
		}
	case "month":
		want := filter(func(r rec) bool { return r.Day[:6] == key })
		if g := renderL(HolidayUtil.GetHolidaysByYm(atoi(key[:4]), atoi(key[4:6]))); !eqList(g, want) {
			return fmt.Errorf("GetHolidaysByYm(%s) = %v, record set in date order has %v", key, brief(g), brief(want))
		}
		if g := renderL(HolidayUtil.GetHolidays(key)); !eqList(g, want) {
			return fmt.Errorf("GetHolidays(%q) = %v, record set has %v", key, brief(g), brief(want))
		}
	case "year":
		want := filter(func(r rec) bool { return r.Day[:4] == key })
		if g := renderL(HolidayUtil.GetHolidaysByYear(atoi(key))); !eqList(g, want) {
			return fmt.Errorf("GetHolidaysByYear(%s) has %d records, record set in date order has %d: %v vs %v", key, len(g), len(want), brief(g), brief(want))
		}
	case "target":
		want := filter(func(r rec) bool { return r.Target == key })
		if g := renderL(HolidayUtil.GetHolidaysByTarget(dash(key))); !eqList(g, want) {
			return fmt.Errorf("GetHolidaysByTarget(%s) has %d records %v, record set in date order has %d: %v", dash(key), len(g), brief(g), len(want), brief(want))
		}
		if g := renderL(HolidayUtil.GetHolidaysByTargetYmd(atoi(key[:4]), atoi(key[4:6]), atoi(key[6:8]))); !eqList(g, want) {
			return fmt.Errorf("GetHolidaysByTargetYmd(%s) = %v, record set has %v", key, brief(g), brief(want))
		}
	}
	return nil
}

var views = ev.Register(&ev.P[tableCase]{
	Name: "views_of_shipped_table",
	Rule: "the shipped table parsed independently (18-byte records) into a record set; exhaustive: every day 2001-01-01..(last year+1)-12-31 (with and without dashes, by numbers; recorded or not), every month and year of that span, every distinct target; oracle: by-day = the record (or nothing), by-month/by-year = the records with that prefix in date order and nothing else, by-target = the records with that target in date order and nothing else; non-trivial: the key has at least one record; distinct = query key",
	Check: func(c tableCase) error {
		HolidayUtil.VerifReset()
		model, err := parseTable(HolidayUtil.VerifData())
		if err != nil {
			return err
		}
		return oneView(model, HolidayUtil.VerifNames(), c.Kind, c.Key)
	},
	Class: func(c tableCase) ([]string, bool) {
		HolidayUtil.VerifReset()
		model, _ := parseTable(HolidayUtil.VerifData())
		n := 0
		makeup, otherTarget := false, false
		for _, r := range model {
			hit := (c.Kind == "day" && r.Day == c.Key) || (c.Kind == "month" && r.Day[:6] == c.Key) || (c.Kind == "year" && r.Day[:4] == c.Key) || (c.Kind == "target" && r.Target == c.Key)
			if hit {
				n++
				makeup = makeup || r.Work
				otherTarget = otherTarget || r.Target != r.Day
			}
		}
		ls := []string{"kind:" + c.Kind}
		if makeup {
			ls = append(ls, "makeUpDay")
		}
		if otherTarget {
			ls = append(ls, "targetDiffersFromDay")
		}
		return ls, n > 0
	},
	Require:  []string{"kind:day", "kind:month", "kind:year", "kind:target", "makeUpDay", "targetDiffersFromDay"},
	Disjoint: true,
})

// ------------------------------------------------------------------------------------------
// 2. fix-ups: stateful sequences against the model

type fixAction struct {
	Kind string // add | replace | remove | removeAbsent | names
	Segs []string
}

type fixCase struct {
	Actions []fixAction
}

func applyModel(model []rec, names []string, a fixAction) ([]rec, []string) {
	if a.Kind == "names" {
		return model, a.Segs
	}
	for _, seg := range a.Segs {
		day := seg[:8]
		idx := -1
		for i, r := range model {
			if r.Day == day {
				idx = i
			}
		}
		if seg[8] == '~' {
			if idx >= 0 {
				model = append(append([]rec(nil), model[:idx]...), model[idx+1:]...)
			}
			continue
		}
		r := rec{Day: day, Name: int(seg[8] - '0'), Work: seg[9] == '0', Target: seg[10:18]}
		if idx >= 0 {
			model = append([]rec(nil), model...)
			model[idx] = r
		} else {
			model = append(append([]rec(nil), model...), r)
		}
	}
	return model, names
}

var fixUps = ev.Register(&ev.P[fixCase]{
	Name: "fixups_reflected_exactly",
	Rule: "stateful: the table is reset (hook), then a generated sequence of Fix calls — add records for days not in the table (before the first record, between records, after the last), replace (other name index / work flag / target), remove (~), remove-absent, replace the name list (also by a longer one, up to 14 names, whose indices from 10 on are written as the characters after '9') — usually one segment per day within one call, sometimes two for the same day (they apply in order, the last one stands); after EVERY call all views (by day, month, year, target) are compared with the map model updated by the same segments, and working-day steps from the days before each touched day are asked before and after the call and must follow the record set in force, so added, replaced and removed records are reflected exactly and all others are unchanged; non-trivial: the sequence adds a record earlier than the table's last record, or removes/replaces a record whose target groups several days",
	Check: func(c fixCase) error {
		HolidayUtil.VerifReset()
		defer HolidayUtil.VerifReset()
		model, err := parseTable(HolidayUtil.VerifData())
		if err != nil {
			return err
		}
		names := HolidayUtil.VerifNames()
		// working-day steps from the days just before each touched day are asked before AND after every fix-up (same start,
		// same counts): the answers follow the record set in force at the time of the question
		stepsOK := func(model []rec, days []string, when string) error {
			byDay := map[string]rec{}
			for _, r := range model {
				byDay[r.Day] = r
			}
			for _, dd := range days {
				j0 := ref.JDN(atoi(dd[:4]), atoi(dd[4:6]), atoi(dd[6:8]))
				// the last question before the call and the first one after it are the same question (start and count)
				offs, ns := []int{-2, -1}, []int{1, 3}
				if strings.HasPrefix(when, "after") {
					offs, ns = []int{-1, -2}, []int{3, 4, 1}
				}
				for _, off := range offs {
					for _, n := range ns {
						sj := j0 + off
						y, m, d := ref.FromJDN(sj)
						r := calendar.NewSolar(y, m, d, 9, 0, 0).Next(n, true)
						cnt, j := 0, sj
						for cnt < n {
							j++
							if workModel(byDay, j) {
								cnt++
							}
						}
						if rj := ref.JDN(r.GetYear(), r.GetMonth(), r.GetDay()); rj != j {
							return fmt.Errorf("%s: %04d-%02d-%02d Next(%d,true) = %s, walking the record set in force gives %s", when, y, m, d, n, r.ToYmd(), fmtDay(j))
						}
					}
				}
			}
			return nil
		}
		for i, a := range c.Actions {
			var touched []string
			if a.Kind != "names" {
				var ds []string
				for _, sg := range a.Segs {
					ds = append(ds, sg[:8])
				}
				if err := stepsOK(model, ds, fmt.Sprintf("before action %d", i)); err != nil {
					return err
				}
			}
			if a.Kind == "names" {
				HolidayUtil.Fix(a.Segs, "")
			} else {
				HolidayUtil.Fix(nil, strings.Join(a.Segs, ""))
				for _, s := range a.Segs {
					touched = append(touched, s[:8])
				}
			}
			model, names = applyModel(model, names, a)
			if err := compareViews(model, names, touched); err != nil {
				return fmt.Errorf("after action %d %s %v: %v", i, a.Kind, a.Segs, err)
			}
			if err := stepsOK(model, touched, fmt.Sprintf("after action %d %s %v", i, a.Kind, a.Segs)); err != nil {
				return err
			}
		}
		return nil
	},
	Class: func(c fixCase) ([]string, bool) {
		var ls []string
		nt := false
		for _, a := range c.Actions {
			seenDay := map[string]bool{}
			for _, sg := range a.Segs {
				if a.Kind != "names" && len(sg) > 8 {
					if seenDay[sg[:8]] {
						ls = append(ls, "sameDayTwiceInOneCall")
					}
					seenDay[sg[:8]] = true
				}
				if a.Kind != "names" && len(sg) > 8 && sg[8] > '9' && sg[8] != '~' {
					ls = append(ls, "nameIndex10plus")
				}
			}
			ls = append(ls, "action:"+a.Kind)
			for _, s := range a.Segs {
				if a.Kind == "add" && s[:8] < lastShippedDay() {
					ls, nt = append(ls, "addOutOfOrder"), true
				}
				if a.Kind == "replace" || a.Kind == "remove" {
					nt = true
				}
			}
		}
		return ls, nt
	},
	Require: []string{"action:add", "action:replace", "action:remove", "action:removeAbsent", "action:names", "addOutOfOrder", "nameIndex10plus", "sameDayTwiceInOneCall"},
})

// ------------------------------------------------------------------------------------------
// 3. workday stepping and pay rate

type stepCase struct {
	J, N int
}

func fmtDay(j int) string {
	y, m, d := ref.FromJDN(j)
	return fmt.Sprintf("%04d-%02d-%02d", y, m, d)
}

func workModel(byDay map[string]rec, j int) bool {
	y, m, d := ref.FromJDN(j)
	if r, ok := byDay[fmt.Sprintf("%04d%02d%02d", y, m, d)]; ok {
		return r.Work
	}
	w := ref.Weekday(j)
	return w >= 1 && w <= 5
}

var lastDayCache string

// lastShippedDay is the day of the shipped table's last record (an added earlier day is "out of order").
func lastShippedDay() string {
	if lastDayCache == "" {
		HolidayUtil.VerifReset()
		rs, _ := parseTable(HolidayUtil.VerifData())
		for _, r := range rs {
			if r.Day > lastDayCache {
				lastDayCache = r.Day
			}
		}
	}
	return lastDayCache
}

func shipped() map[string]rec {
	HolidayUtil.VerifReset()
	rs, _ := parseTable(HolidayUtil.VerifData())
	m := map[string]rec{}
	for _, r := range rs {
		m[r.Day] = r
	}
	return m
}

var workday = ev.Register(&ev.P[stepCase]{
	Name: "workday_step",
	Rule: "start days enumerated over sample years (all days 2001..last year+1 in thorough) x n in -60..60, plus generated (day, n); oracle from the record set: a day works if it is a recorded make-up day or an unrecorded Monday-Friday; Next(n,true) lands on a working day, exactly |n| working days lie in (start, result] (resp. [result, start) for n<0), n = 0 returns the same day, clock fields kept; non-trivial: the walk crosses a recorded day",
	Check: func(c stepCase) error {
		byDay := shipped()
		y, m, d := ref.FromJDN(c.J)
		s := calendar.NewSolar(y, m, d, 8, 30, 15)
		r := s.Next(c.N, true)
		rj := ref.JDN(r.GetYear(), r.GetMonth(), r.GetDay())
		if r.GetHour() != 8 || r.GetMinute() != 30 || r.GetSecond() != 15 {
			return fmt.Errorf("%s Next(%d,true) changed the clock: %s", s.ToYmdHms(), c.N, r.ToYmdHms())
		}
		if c.N == 0 {
			if rj != c.J {
				return fmt.Errorf("%s Next(0,true) = %s", s.ToYmd(), r.ToYmd())
			}
			return nil
		}
		step := 1
		if c.N < 0 {
			step = -1
		}
		// expected: walk day by day
		cnt, j := 0, c.J
		for cnt < c.N*step {
			j += step
			if workModel(byDay, j) {
				cnt++
			}
		}
		if rj != j {
			return fmt.Errorf("%s Next(%d,true) = %s, walking the record set gives %04d-%02d-%02d", s.ToYmd(), c.N, r.ToYmd(), first(ref.FromJDN(j)), second(ref.FromJDN(j)), third(ref.FromJDN(j)))
		}
		if !workModel(byDay, rj) {
			return fmt.Errorf("%s Next(%d,true) = %s which is not a working day", s.ToYmd(), c.N, r.ToYmd())
		}
		return nil
	},
	Class: func(c stepCase) ([]string, bool) {
		byDay := shipped()
		lo, hi := c.J, c.J+2*c.N
		if lo > hi {
			lo, hi = hi, lo
		}
		for j := lo; j <= hi; j++ {
			y, m, d := ref.FromJDN(j)
			if r, ok := byDay[fmt.Sprintf("%04d%02d%02d", y, m, d)]; ok {
				if r.Work {
					return []string{"crossesMakeUpDay", "crossesRecord"}, true
				}
				return []string{"crossesRecord"}, true
			}
		}
		return nil, false
	},
	Require: []string{"crossesRecord", "crossesMakeUpDay"},
})

func first(a, b, c int) int  { return a }
func second(a, b, c int) int { return b }
func third(a, b, c int) int  { return c }

type rateCase struct{ J int }

var salary = ev.Register(&ev.P[rateCase]{
	Name: "salary_rate",
	Rule: "every day of the table's span (and generated days outside it); oracle: 3 on New Year's Day, lunar 1/1-1/3 (regular month), Qingming day, May 1, lunar 5/5, lunar 8/15, Oct 1-3; otherwise 2 if the day is off (record that is not a make-up day, or an unrecorded Saturday/Sunday) else 1; the two days added to the statutory list in 2025 (lunar New Year's Eve, May 2) may be 3 or their off/working value, so a legitimate update of the list cannot raise an alarm; non-trivial: a statutory day, a recorded day, or a weekend",
	Check: func(c rateCase) error {
		byDay := shipped()
		y, m, d := ref.FromJDN(c.J)
		s := calendar.NewSolar(y, m, d, (c.J*5)%24, (c.J*7)%60, (c.J*11)%60) // the pay rate is a fact of the day, whatever the clock
		l := s.GetLunar()
		qing := false
		for i, x := range gen.Terms(y) {
			if i == 8 && x.Y == y && x.M == m && x.D == d {
				qing = true
			}
		}
		statutory := (m == 1 && d == 1) || (m == 5 && d == 1) || (m == 10 && d >= 1 && d <= 3) ||
			(l.GetMonth() == 1 && l.GetDay() >= 1 && l.GetDay() <= 3) || (l.GetMonth() == 5 && l.GetDay() == 5) || (l.GetMonth() == 8 && l.GetDay() == 15) || qing
		base := 1
		if !workModel(byDay, c.J) {
			base = 2
		}
		got := s.GetSalaryRate()
		if statutory {
			if got != 3 {
				return fmt.Errorf("%s (lunar %d/%d): pay rate %d on a statutory festival day, want 3", s.ToYmd(), l.GetMonth(), l.GetDay(), got)
			}
			return nil
		}
		newIn2025 := (m == 5 && d == 2) || (c.J+1 <= ref.JDNMax && func() bool {
			y2, m2, d2 := ref.FromJDN(c.J + 1)
			return calendar.NewSolarFromYmd(y2, m2, d2).GetLunar().GetYear() != l.GetYear()
		}())
		if got == base || (newIn2025 && got == 3) {
			return nil
		}
		return fmt.Errorf("%s (lunar %d/%d, weekday %d, record %v): pay rate %d, want %d", s.ToYmd(), l.GetMonth(), l.GetDay(), ref.Weekday(c.J), byDay[fmt.Sprintf("%04d%02d%02d", y, m, d)], got, base)
	},
	Class: func(c rateCase) ([]string, bool) {
		byDay := shipped()
		y, m, d := ref.FromJDN(c.J)
		var ls []string
		nt := false
		if _, ok := byDay[fmt.Sprintf("%04d%02d%02d", y, m, d)]; ok {
			ls, nt = append(ls, "recorded"), true
		}
		if w := ref.Weekday(c.J); w == 0 || w == 6 {
			ls, nt = append(ls, "weekend"), true
		}
		l := calendar.NewSolarFromYmd(y, m, d).GetLunar()
		if (l.GetMonth() == 1 && l.GetDay() <= 3) || (l.GetMonth() == 5 && l.GetDay() == 5) || (l.GetMonth() == 8 && l.GetDay() == 15) || l.GetJieQi() == "清明" {
			ls, nt = append(ls, "movableStatutory"), true
		}
		return ls, nt
	},
	Require:  []string{"recorded", "weekend", "movableStatutory"},
	Disjoint: true,
})

// ------------------------------------------------------------------------------------------
// generators for fix-ups

func genFix(t *rapid.T) fixCase {
	HolidayUtil.VerifReset()
	base, _ := parseTable(HolidayUtil.VerifData())
	model := append([]rec(nil), base...)
	nNames := len(HolidayUtil.VerifNames())
	n := rapid.IntRange(1, 6).Draw(t, "actions")
	var acts []fixAction
	for i := 0; i < n; i++ {
		kind := rapid.SampledFrom([]string{"add", "add", "replace", "remove", "removeAbsent", "names"}).Draw(t, "kind")
		a := fixAction{Kind: kind}
		used := map[string]bool{}
		segs := rapid.IntRange(1, 3).Draw(t, "segs")
		if kind == "names" {
			// a permutation-free renaming: same length list with suffixed names
			var ns []string
			// the list may grow (never shrink below an index in use): indices from 10 on are written as the characters
			// after '9' in a record
			nNames = rapid.IntRange(nNames, 14).Draw(t, "nNames")
			for k := 0; k < nNames; k++ {
				ns = append(ns, fmt.Sprintf("N%d-%d", k, rapid.IntRange(0, 3).Draw(t, "nameVariant")))
			}
			a.Segs = ns
			acts = append(acts, a)
			continue
		}
		for k := 0; k < segs; k++ {
			var day string
			has := func(dd string) bool {
				for _, r := range model {
					if r.Day == dd {
						return true
					}
				}
				return false
			}
			absent := func() string {
				for try := 0; try < 50; try++ {
					var y int
					switch rapid.IntRange(0, 3).Draw(t, "where") {
					case 0:
						y = rapid.IntRange(1990, 2000).Draw(t, "before")
					case 1:
						y = atoi(lastShippedDay()[:4]) + rapid.IntRange(1, 10).Draw(t, "after")
					default:
						y = rapid.IntRange(2002, atoi(lastShippedDay()[:4])).Draw(t, "between")
					}
					dd := fmt.Sprintf("%04d%02d%02d", y, rapid.IntRange(1, 12).Draw(t, "m"), rapid.IntRange(1, 28).Draw(t, "d"))
					if !has(dd) && !used[dd] {
						return dd
					}
				}
				return "19890604"
			}
			switch kind {
			case "add", "removeAbsent":
				day = absent()
			default:
				if len(model) == 0 {
					day = absent()
				} else {
					day = model[rapid.IntRange(0, len(model)-1).Draw(t, "existing")].Day
					if used[day] {
						continue
					}
				}
			}
			used[day] = true
			var seg string
			if kind == "remove" || kind == "removeAbsent" {
				seg = day + "~" + "0" + day
			} else {
				tgt := day
				if rapid.Bool().Draw(t, "otherTarget") {
					tgt = fmt.Sprintf("%04d%02d%02d", atoi(day[:4]), rapid.SampledFrom([]int{1, 5, 10}).Draw(t, "tm"), 1)
				}
				ni := rapid.IntRange(0, nNames-1).Draw(t, "name")
				if nNames > 10 && rapid.Bool().Draw(t, "highName") {
					ni = rapid.IntRange(10, nNames-1).Draw(t, "name10")
				}
				seg = fmt.Sprintf("%s%c%d%s", day, rune('0'+ni), rapid.IntRange(0, 1).Draw(t, "work"), tgt)
			}
			a.Segs = append(a.Segs, seg)
			if (kind == "replace" || kind == "remove") && rapid.IntRange(0, 3).Draw(t, "again") == 0 {
				// a second (never a third) segment for the same day in the same call, the first one addressing a record that
				// exists: replace-replace, replace-remove, remove-re-add, remove-remove — the orders in which "apply in order,
				// the last one stands" is the only reading (a removal of a record that the same call has only just queued
				// for adding is left out: the statement does not say what that means)
				switch rapid.IntRange(0, 2).Draw(t, "againKind") {
				case 0:
					a.Segs = append(a.Segs, fmt.Sprintf("%s%c%d%s", day, rune('0'+rapid.IntRange(0, nNames-1).Draw(t, "name2")), rapid.IntRange(0, 1).Draw(t, "work2"), day))
				case 1:
					a.Segs = append(a.Segs, day+"~"+"0"+day)
				default:
					a.Segs = append(a.Segs, fmt.Sprintf("%s%c%d%s", day, rune('0'+rapid.IntRange(0, nNames-1).Draw(t, "name3")), 1, fmt.Sprintf("%s0101", day[:4])))
				}
			}
		}
		if len(a.Segs) == 0 {
			continue
		}
		model, _ = applyModel(model, nil, a)
		acts = append(acts, a)
	}
	if len(acts) == 0 {
		acts = []fixAction{{Kind: "removeAbsent", Segs: []string{"19890604~019890604"}}}
	}
	return fixCase{acts}
}

func TestC14(t *testing.T) {
	ev.Assume("hook VerifData/VerifReset exposes and restores the package-level holiday table; the statutory-day list is the one in the statement")
	{
		HolidayUtil.VerifReset()
		model, _ := parseTable(HolidayUtil.VerifData())
		ms := sorted(model)
		last := atoi(ms[len(ms)-1].Day[:4]) + 1
		k := 0
		add := func(kind, key string) {
			if ev.Mine(k) {
				views.Eval(tableCase{kind, key})
			}
			k++
		}
		targets := map[string]bool{}
		for _, r := range ms {
			targets[r.Target] = true
		}
		var tl []string
		for t := range targets {
			tl = append(tl, t)
		}
		sort.Strings(tl)
		for _, t := range tl {
			add("target", t)
		}
		for y := 2000; y <= last; y++ {
			add("year", fmt.Sprintf("%04d", y))
			for m := 1; m <= 12; m++ {
				add("month", fmt.Sprintf("%04d%02d", y, m))
			}
		}
		for j := ref.JDN(2001, 1, 1); j <= ref.JDN(last, 12, 31); j++ {
			y, m, d := ref.FromJDN(j)
			add("day", fmt.Sprintf("%04d%02d%02d", y, m, d))
		}
		views.Exhaustive("every day 2001-01-01..(last year+1)-12-31, every month, year and distinct target of the shipped table")
	}
	if ev.Shard == 0 {
		// the design-round regression inputs
		fixUps.Eval(fixCase{[]fixAction{{Kind: "add", Segs: []string{"201005053120100501"}}}})
		fixUps.Eval(fixCase{[]fixAction{{Kind: "remove", Segs: []string{"20100101~020100101"}}, {Kind: "add", Segs: []string{"203001010120300101"}}, {Kind: "replace", Segs: []string{"203001011020300101"}}}})
	}
	HolidayUtil.VerifReset()
	rs, _ := parseTable(HolidayUtil.VerifData())
	srt := sorted(rs)
	lastY := atoi(srt[len(srt)-1].Day[:4]) + 1
	// pay rate: every day of the span
	for j := ref.JDN(2001, 1, 1); j <= ref.JDN(lastY, 12, 31); j++ {
		if ev.Mine(j) {
			salary.Eval(rateCase{j})
		}
	}
	salary.Exhaustive(fmt.Sprintf("every day 2001-01-01..%d-12-31", lastY))
	// workday steps
	years := []int{2008, 2015, 2020}
	if ev.Thorough() {
		years = nil
		for y := 2001; y <= lastY; y++ {
			years = append(years, y)
		}
		workday.Exhaustive(fmt.Sprintf("every day 2001..%d x n in -60..60", lastY))
	}
	for _, y := range years {
		for j := ref.JDN(y, 1, 1); j <= ref.JDN(y, 12, 31); j++ {
			if !ev.Mine(j) {
				continue
			}
			for n := -60; n <= 60; n++ {
				if !ev.Thorough() && n%7 != 0 && n != 1 && n != -1 && n != 2 && n != -6 {
					continue
				}
				workday.Eval(stepCase{j, n})
			}
		}
	}
	workday.Rapid(ev.Share(ev.Pick(8000, 80000)), func(t *rapid.T) stepCase {
		y := rapid.IntRange(1995, lastY+3).Draw(t, "y")
		m := rapid.SampledFrom([]int{1, 2, 4, 5, 6, 9, 10, 12}).Draw(t, "m")
		return stepCase{ref.JDN(y, m, rapid.IntRange(1, 28).Draw(t, "d")), rapid.IntRange(-60, 60).Draw(t, "n")}
	})
	fixUps.Rapid(ev.Share(ev.Pick(800, 16000)), genFix)
	HolidayUtil.VerifReset()
}

// native fuzz target (thorough tier, additive): bytes are decoded into a sequence of Fix calls
// (5 bytes per segment: kind, year, month, day, flags; kind bit 7 starts a new call) and checked by
// the same stateful oracle as fixups_reflected_exactly.
func FuzzFix(f *testing.F) {
	f.Add([]byte{0, 10, 5, 5, 1})
	f.Add([]byte{0, 30, 1, 1, 0, 0x81, 30, 1, 1, 3, 0x82, 30, 1, 1, 0})
	f.Add([]byte{2, 0, 0, 0, 0, 0x80, 200, 12, 28, 2})
	f.Fuzz(func(t *testing.T, data []byte) {
		if len(data) > 200 {
			data = data[:200]
		}
		HolidayUtil.VerifReset()
		base, _ := parseTable(HolidayUtil.VerifData())
		model := append([]rec(nil), base...)
		nNames := len(HolidayUtil.VerifNames())
		var acts []fixAction
		cur := fixAction{Kind: "add"}
		used := map[string]bool{}
		flush := func() {
			if len(cur.Segs) > 0 {
				acts = append(acts, cur)
				model, _ = applyModel(model, nil, cur)
			}
			cur = fixAction{Kind: "add"}
			used = map[string]bool{}
		}
		for i := 0; i+5 <= len(data); i += 5 {
			k, yb, mb, db, fl := data[i], data[i+1], data[i+2], data[i+3], data[i+4]
			if k&0x80 != 0 {
				flush()
			}
			var day string
			exists := func(d string) bool {
				for _, r := range model {
					if r.Day == d {
						return true
					}
				}
				return false
			}
			if k&3 == 1 || k&3 == 2 { // replace / remove an existing record
				if len(model) == 0 {
					continue
				}
				day = model[(int(yb)<<8|int(mb))%len(model)].Day
			} else {
				day = fmt.Sprintf("%04d%02d%02d", 1990+int(yb)%50, 1+int(mb)%12, 1+int(db)%28)
			}
			if used[day] {
				continue
			}
			used[day] = true
			if k&3 == 2 || (k&3 == 3 && !exists(day)) {
				cur.Segs = append(cur.Segs, day+"~0"+day)
				cur.Kind = "remove"
			} else {
				tgt := day
				if fl&4 != 0 {
					tgt = fmt.Sprintf("%s%02d01", day[:4], []int{1, 5, 10}[int(fl>>3)%3])
				}
				cur.Segs = append(cur.Segs, fmt.Sprintf("%s%d%d%s", day, int(fl>>5)%nNames, int(fl)&1, tgt))
			}
		}
		flush()
		if len(acts) == 0 {
			return
		}
		ev.FuzzCheck(t, fixUps, fixCase{acts})
	})
}
