//go:build verif

// C15 — civil weeks/months/seasons/half-years/years partition time and navigate back.
package c15

import (
	"container/list"
	"fmt"
	"strings"
	"testing"
	"time"

	"github.com/6tail/lunar-go/SolarUtil"
	"github.com/6tail/lunar-go/calendar"
	"pgregory.net/rapid"
	"verif/internal/ev"
	"verif/internal/gen"
	"verif/internal/ref"
)

func TestMain(m *testing.M) { ev.Main(m, "C15") }

// ---- R-civil week model

func firstDayJ(j, start int) int { return j - ref.Mod(ref.Weekday(j)-start, 7) }

// number of week starts passed since the 1st of the month, counting the (possibly partial) first week as 1
func indexInMonth(y, m, d, start int) int {
	off := ref.Mod(ref.Weekday(ref.JDN(y, m, 1))-start, 7)
	return (ref.OrdinalInMonth(y, m, d) + off + 6) / 7
}

func indexInYear(y, m, d, start int) int {
	off := ref.Mod(ref.Weekday(ref.JDN(y, 1, 1))-start, 7)
	return (ref.OrdinalInYear(y, m, d) + off + 6) / 7
}

func weeksOfMonth(y, m, start int) int {
	off := ref.Mod(ref.Weekday(ref.JDN(y, m, 1))-start, 7)
	return (ref.DaysInMonth(y, m) + off + 6) / 7
}

func ymd(s *calendar.Solar) string { return s.ToYmd() }

func solars(l *list.List) ([]string, error) {
	var out []string
	for e := l.Front(); e != nil; e = e.Next() {
		s, ok := e.Value.(*calendar.Solar)
		if !ok {
			return nil, fmt.Errorf("list element is %T, not *Solar", e.Value)
		}
		out = append(out, ymd(s))
	}
	return out, nil
}

func fmtJ(j int) string {
	y, m, d := ref.FromJDN(j)
	return fmt.Sprintf("%04d-%02d-%02d", y, m, d)
}

// ------------------------------------------------------------------------------------------

type weekCase struct {
	J, Start, N int
}

var weeks = ev.Register(&ev.P[weekCase]{
	Name: "week_structure_and_navigation",
	Rule: "generated (date dense on 1582-09..11, month ends, year ends; first weekday 0..6; n in ±0..±60); oracle R-civil: first day = date − ((weekday − start) mod 7), GetDays = those 7 consecutive days containing the date, GetDaysInMonth/GetFirstDayInMonth = the week's days in the week's month, index in month/year = 1 + number of week starts passed since the 1st (ordinals, so 1582-10 counts 21 days), Next(n,false) = the week of date+7n with first day + 7n and Next(n,false).Next(−n,false) = id, Next(n,true) = the position n steps away in the sequence …(M,1..k_M),(M+1,1..k_{M+1})… compared by (year, month, index) and Next(n,true).Next(−n,true) returns to the same (year, month, index); non-trivial: start >= 3, the week straddles a month or year, the month is 1582-10, or |n| crosses >= 2 months",
	Check: func(c weekCase) error {
		y, m, d := ref.FromJDN(c.J)
		w := calendar.NewSolarWeekFromYmd(y, m, d, c.Start)
		desc := fmt.Sprintf("week of %s start=%d", fmtJ(c.J), c.Start)
		// the time.Time constructors of all five units name the unit of the time's own calendar fields (midnight UTC of
		// 0001-01-01 — Go's zero time — included, with any clock time and location otherwise)
		{
			hh, ns, loc := (c.J*5)%24, []int{0, 999999999, 1}[c.J%3], []*time.Location{time.UTC, time.Local, time.FixedZone("E8", 8*3600)}[(c.J/3)%3]
			if c.J%4 == 0 || c.J == ref.JDNMin {
				hh, ns, loc = 0, 0, time.UTC
			}
			tm := time.Date(y, time.Month(m), d, hh, 0, 0, ns, loc)
			if tm.Year() == y && int(tm.Month()) == m && tm.Day() == d { // not normalised by the standard library
				wk := calendar.NewSolarWeekFromDate(tm, c.Start)
				mo, se, ha, ye := calendar.NewSolarMonthFromDate(tm), calendar.NewSolarSeasonFromDate(tm), calendar.NewSolarHalfYearFromDate(tm), calendar.NewSolarYearFromDate(tm)
				if wk.GetYear() != y || wk.GetMonth() != m || wk.GetDay() != d || ymd(wk.GetFirstDay()) != ymd(w.GetFirstDay()) || wk.GetIndex() != w.GetIndex() ||
					mo.GetYear() != y || mo.GetMonth() != m || se.GetYear() != y || se.GetIndex() != (m+2)/3 || ha.GetYear() != y || ha.GetIndex() != (m+5)/6 || ye.GetYear() != y {
					return fmt.Errorf("%s: the time.Time constructors for %v give week %d-%d-%d index %d, month %d-%d, season %d.%d, half-year %d.%d, year %d", desc, tm, wk.GetYear(), wk.GetMonth(), wk.GetDay(), wk.GetIndex(),
						mo.GetYear(), mo.GetMonth(), se.GetYear(), se.GetIndex(), ha.GetYear(), ha.GetIndex(), ye.GetYear())
				}
			}
		}
		fj := firstDayJ(c.J, c.Start)
		if g := ymd(w.GetFirstDay()); g != fmtJ(fj) {
			return fmt.Errorf("%s: GetFirstDay=%s, model says %s", desc, g, fmtJ(fj))
		}
		days, err := solars(w.GetDays())
		if err != nil {
			return fmt.Errorf("%s: GetDays: %v", desc, err)
		}
		var want, wantIn []string
		for k := 0; k < 7; k++ {
			want = append(want, fmtJ(fj+k))
			if yy, mm, _ := ref.FromJDN(fj + k); yy == y && mm == m {
				wantIn = append(wantIn, fmtJ(fj+k))
			}
		}
		if strings.Join(days, ",") != strings.Join(want, ",") {
			return fmt.Errorf("%s: GetDays=%v, model says %v", desc, days, want)
		}
		in, err := solars(w.GetDaysInMonth())
		if err != nil {
			return fmt.Errorf("%s: GetDaysInMonth: %v", desc, err)
		}
		if strings.Join(in, ",") != strings.Join(wantIn, ",") {
			return fmt.Errorf("%s: GetDaysInMonth=%v, model says %v", desc, in, wantIn)
		}
		if g := ymd(w.GetFirstDayInMonth()); g != wantIn[0] {
			return fmt.Errorf("%s: GetFirstDayInMonth=%s, model says %s", desc, g, wantIn[0])
		}
		// the accessors are read-only: asking again, in another order, on the same object gives the same week
		again, err := solars(w.GetDays())
		if err != nil || strings.Join(again, ",") != strings.Join(want, ",") {
			return fmt.Errorf("%s: GetDays after GetDaysInMonth/GetFirstDayInMonth = %v (%v), first answer was %v", desc, again, err, want)
		}
		if in2, _ := solars(w.GetDaysInMonth()); strings.Join(in2, ",") != strings.Join(wantIn, ",") {
			return fmt.Errorf("%s: second GetDaysInMonth = %v, first answer was %v", desc, in2, wantIn)
		}
		if g, x := w.GetIndex(), indexInMonth(y, m, d, c.Start); g != x {
			return fmt.Errorf("%s: GetIndex=%d, %d week starts passed in the month", desc, g, x)
		}
		if g, x := w.GetIndexInYear(), indexInYear(y, m, d, c.Start); g != x {
			return fmt.Errorf("%s: GetIndexInYear=%d, model says %d", desc, g, x)
		}
		if c.J+7*c.N < ref.JDNMin+40 || c.J+7*c.N > ref.JDNMax-40 {
			return nil
		}
		// whole weeks
		nx := w.Next(c.N, false)
		if g := fmt.Sprintf("%04d-%02d-%02d", nx.GetYear(), nx.GetMonth(), nx.GetDay()); g != fmtJ(c.J+7*c.N) {
			return fmt.Errorf("%s: Next(%d,false) = %s, model says %s", desc, c.N, g, fmtJ(c.J+7*c.N))
		}
		if g := ymd(nx.GetFirstDay()); g != fmtJ(fj+7*c.N) {
			return fmt.Errorf("%s: Next(%d,false).GetFirstDay = %s, model says %s", desc, c.N, g, fmtJ(fj+7*c.N))
		}
		// the stepped week is a week like any other: its indices are those of its own date (the source week has
		// answered its own index questions by now), also one and two years away
		for _, n := range []int{c.N, 52, -52, 53, 104} {
			jj := c.J + 7*n
			if jj < ref.JDNMin+40 || jj > ref.JDNMax-40 {
				continue
			}
			x := w.Next(n, false)
			yy, mm, dd := ref.FromJDN(jj)
			if g, want := x.GetIndex(), indexInMonth(yy, mm, dd, c.Start); g != want {
				return fmt.Errorf("%s: Next(%d,false).GetIndex = %d, %d week starts passed in %04d-%02d", desc, n, g, want, yy, mm)
			}
			if g, want := x.GetIndexInYear(), indexInYear(yy, mm, dd, c.Start); g != want {
				return fmt.Errorf("%s: Next(%d,false).GetIndexInYear = %d, model says %d", desc, n, g, want)
			}
		}
		bk := nx.Next(-c.N, false)
		if bk.GetYear() != y || bk.GetMonth() != m || bk.GetDay() != d {
			return fmt.Errorf("%s: Next(%d,false).Next(%d,false) = %d-%d-%d", desc, c.N, -c.N, bk.GetYear(), bk.GetMonth(), bk.GetDay())
		}
		// month-separated weeks
		py, pm, pi := y, m, indexInMonth(y, m, d, c.Start)
		n := c.N
		for s := 0; s < abs(n); s++ {
			if n > 0 {
				pi++
				if pi > weeksOfMonth(py, pm, c.Start) {
					pm++
					if pm > 12 {
						pm, py = 1, py+1
					}
					pi = 1
				}
			} else {
				pi--
				if pi < 1 {
					pm--
					if pm < 1 {
						pm, py = 12, py-1
					}
					pi = weeksOfMonth(py, pm, c.Start)
				}
			}
		}
		sm := w.Next(c.N, true)
		if !ref.ValidDate(sm.GetYear(), sm.GetMonth(), sm.GetDay()) {
			return fmt.Errorf("%s: Next(%d,true) = %d-%d-%d is not a date", desc, c.N, sm.GetYear(), sm.GetMonth(), sm.GetDay())
		}
		gi := indexInMonth(sm.GetYear(), sm.GetMonth(), sm.GetDay(), c.Start)
		if sm.GetYear() != py || sm.GetMonth() != pm || gi != pi {
			return fmt.Errorf("%s (month week %d): Next(%d,true) = %d-%d-%d i.e. (year %d, month %d, week %d), the sequence gives (year %d, month %d, week %d)", desc, indexInMonth(y, m, d, c.Start), c.N, sm.GetYear(), sm.GetMonth(), sm.GetDay(), sm.GetYear(), sm.GetMonth(), gi, py, pm, pi)
		}
		bs := sm.Next(-c.N, true)
		if bs.GetYear() != y || bs.GetMonth() != m || indexInMonth(bs.GetYear(), bs.GetMonth(), bs.GetDay(), c.Start) != indexInMonth(y, m, d, c.Start) {
			return fmt.Errorf("%s: Next(%d,true).Next(%d,true) = %d-%d-%d, not the starting (month, week)", desc, c.N, -c.N, bs.GetYear(), bs.GetMonth(), bs.GetDay())
		}
		return nil
	},
	Class: func(c weekCase) ([]string, bool) {
		y, m, _ := ref.FromJDN(c.J)
		fj := firstDayJ(c.J, c.Start)
		ls := []string{gen.Era(y), fmt.Sprintf("start:%d", c.Start)}
		nt := false
		if c.Start >= 3 {
			nt = true
		}
		y1, m1, _ := ref.FromJDN(fj)
		y2, m2, _ := ref.FromJDN(fj + 6)
		if m1 != m2 {
			ls, nt = append(ls, "straddlesMonth"), true
		}
		if y1 != y2 {
			ls, nt = append(ls, "straddlesYear"), true
		}
		if y == 1582 && m == 10 {
			ls, nt = append(ls, "oct1582"), true
		}
		if c.N >= 10 || c.N <= -10 {
			ls, nt = append(ls, "crosses2Months"), true
		}
		if c.N < 0 {
			ls = append(ls, "backward")
		}
		if c.N == 0 {
			ls = append(ls, "zero")
		}
		if c.Start > ref.Weekday(ref.JDN(y, m, 1)) {
			ls = append(ls, "startAfterWeekdayOfFirst")
		}
		return ls, nt
	},
	Require: []string{"straddlesMonth", "straddlesYear", "oct1582", "crosses2Months", "backward", "zero", "startAfterWeekdayOfFirst", "start:0", "start:6"},
})

func abs(a int) int {
	if a < 0 {
		return -a
	}
	return a
}

// ------------------------------------------------------------------------------------------

type monthCase struct {
	Y, M, Start, N int
}

var months = ev.Register(&ev.P[monthCase]{
	Name: "month_season_halfyear_year",
	Rule: "every month of the sweep years x 7 first weekdays (all years in thorough) and generated (year, month, start, n); oracle R-civil: SolarMonth.GetDays = every existing day once in order (21 for 1582-10); GetWeeks(start) first days = the distinct week-first-days of the month's days in order, and SolarUtil.GetWeeksOfMonth = its length; season = the 3 months of its quarter with index ceil(m/3), half-year 6 months with index ceil(m/6), year 12 months; Next(n) moves by n months / 3n / 6n / 12n months and Next(n).Next(−n) returns to the same unit; non-trivial: 1582-10, February, start > weekday of the 1st, or n crosses a year",
	Check: func(c monthCase) error {
		y, m := c.Y, c.M
		sm := calendar.NewSolarMonthFromYm(y, m)
		days, err := solars(sm.GetDays())
		if err != nil {
			return fmt.Errorf("SolarMonth %d-%d GetDays: %v", y, m, err)
		}
		var want []string
		var wantWeeks []string
		for d := 1; d <= 31; d++ {
			if ref.ValidDate(y, m, d) {
				want = append(want, fmt.Sprintf("%04d-%02d-%02d", y, m, d))
				f := fmtJ(firstDayJ(ref.JDN(y, m, d), c.Start))
				if len(wantWeeks) == 0 || wantWeeks[len(wantWeeks)-1] != f {
					wantWeeks = append(wantWeeks, f)
				}
			}
		}
		if strings.Join(days, ",") != strings.Join(want, ",") {
			return fmt.Errorf("SolarMonth %d-%d GetDays = %v, model says %v", y, m, days, want)
		}
		// one month object is asked for its weeks under other first weekdays before (and after) the one compared
		_ = sm.GetWeeks((c.Start + 3) % 7)
		_ = sm.GetWeeks((c.Start + 6) % 7)
		var gotWeeks []string
		for e := sm.GetWeeks(c.Start).Front(); e != nil; e = e.Next() {
			w, ok := e.Value.(*calendar.SolarWeek)
			if !ok {
				return fmt.Errorf("GetWeeks element is %T", e.Value)
			}
			gotWeeks = append(gotWeeks, ymd(w.GetFirstDay()))
		}
		if strings.Join(gotWeeks, ",") != strings.Join(wantWeeks, ",") {
			return fmt.Errorf("SolarMonth %d-%d GetWeeks(%d) first days %v, the weeks meeting the month start on %v", y, m, c.Start, gotWeeks, wantWeeks)
		}
		if g := SolarUtil.GetWeeksOfMonth(y, m, c.Start); g != len(wantWeeks) {
			return fmt.Errorf("GetWeeksOfMonth(%d,%d,%d) = %d, %d weeks meet the month", y, m, c.Start, g, len(wantWeeks))
		}
		// units
		monthsOf := func(l *list.List) []string {
			var out []string
			for e := l.Front(); e != nil; e = e.Next() {
				x := e.Value.(*calendar.SolarMonth)
				out = append(out, fmt.Sprintf("%d-%d", x.GetYear(), x.GetMonth()))
			}
			return out
		}
		seq := func(first, n int) []string {
			var out []string
			for i := 0; i < n; i++ {
				out = append(out, fmt.Sprintf("%d-%d", y, first+i))
			}
			return out
		}
		ss := calendar.NewSolarSeasonFromYm(y, m)
		qi := (m + 2) / 3
		if ss.GetIndex() != qi || strings.Join(monthsOf(ss.GetMonths()), ",") != strings.Join(seq(3*(qi-1)+1, 3), ",") {
			return fmt.Errorf("SolarSeason %d-%d: index %d months %v", y, m, ss.GetIndex(), monthsOf(ss.GetMonths()))
		}
		sh := calendar.NewSolarHalfYearFromYm(y, m)
		hi := (m + 5) / 6
		if sh.GetIndex() != hi || strings.Join(monthsOf(sh.GetMonths()), ",") != strings.Join(seq(6*(hi-1)+1, 6), ",") {
			return fmt.Errorf("SolarHalfYear %d-%d: index %d months %v", y, m, sh.GetIndex(), monthsOf(sh.GetMonths()))
		}
		sy := calendar.NewSolarYearFromYear(y)
		if strings.Join(monthsOf(sy.GetMonths()), ",") != strings.Join(seq(1, 12), ",") {
			return fmt.Errorf("SolarYear %d months %v", y, monthsOf(sy.GetMonths()))
		}
		// navigation
		step := func(k int) (int, int) { t := y*12 + m - 1 + k; return ref.FloorDiv(t, 12), ref.Mod(t, 12) + 1 }
		n := c.N
		if wy, wm := step(n); wy >= 1 && wy <= 9998 {
			x := sm.Next(n)
			if x.GetYear() != wy || x.GetMonth() != wm {
				return fmt.Errorf("SolarMonth %d-%d Next(%d) = %d-%d, model says %d-%d", y, m, n, x.GetYear(), x.GetMonth(), wy, wm)
			}
			if b := x.Next(-n); b.GetYear() != y || b.GetMonth() != m {
				return fmt.Errorf("SolarMonth %d-%d Next(%d).Next(%d) = %d-%d", y, m, n, -n, b.GetYear(), b.GetMonth())
			}
		}
		if wy, wm := step(3 * n); wy >= 1 && wy <= 9998 {
			x := ss.Next(n)
			if x.GetYear() != wy || x.GetIndex() != (wm+2)/3 {
				return fmt.Errorf("SolarSeason %d-%d Next(%d) = %d.%d, model says %d.%d", y, m, n, x.GetYear(), x.GetIndex(), wy, (wm+2)/3)
			}
			if b := x.Next(-n); b.GetYear() != y || b.GetIndex() != qi || b.GetMonth() != m {
				return fmt.Errorf("SolarSeason %d-%d Next(%d).Next(%d) = %d-%d", y, m, n, -n, b.GetYear(), b.GetMonth())
			}
		}
		if wy, wm := step(6 * n); wy >= 1 && wy <= 9998 {
			x := sh.Next(n)
			if x.GetYear() != wy || x.GetIndex() != (wm+5)/6 {
				return fmt.Errorf("SolarHalfYear %d-%d Next(%d) = %d.%d, model says %d.%d", y, m, n, x.GetYear(), x.GetIndex(), wy, (wm+5)/6)
			}
			if b := x.Next(-n); b.GetYear() != y || b.GetIndex() != hi || b.GetMonth() != m {
				return fmt.Errorf("SolarHalfYear %d-%d Next(%d).Next(%d) = %d-%d", y, m, n, -n, b.GetYear(), b.GetMonth())
			}
		}
		if y+n >= 1 && y+n <= 9998 {
			x := sy.Next(n)
			if x.GetYear() != y+n || x.Next(-n).GetYear() != y {
				return fmt.Errorf("SolarYear %d Next(%d) = %d", y, n, x.GetYear())
			}
		}
		return nil
	},
	Class: func(c monthCase) ([]string, bool) {
		ls := []string{gen.Era(c.Y)}
		nt := false
		if c.Y == 1582 && c.M == 10 {
			ls, nt = append(ls, "oct1582"), true
		}
		if c.M == 2 {
			ls, nt = append(ls, "february"), true
		}
		if c.Start > ref.Weekday(ref.JDN(c.Y, c.M, 1)) {
			ls, nt = append(ls, "startAfterWeekdayOfFirst"), true
		}
		if t := c.Y*12 + c.M - 1 + c.N; ref.FloorDiv(t, 12) != c.Y {
			ls, nt = append(ls, "crossesYear"), true
		}
		if c.N < 0 {
			ls = append(ls, "backward")
		}
		return ls, nt
	},
	Require: []string{"oct1582", "february", "startAfterWeekdayOfFirst", "crossesYear", "backward"},
})

// the first month of the range
type edgeCase struct{ D, Start, K int }

var weeksRangeEnd = ev.Register(&ev.P[edgeCase]{
	Name: "first_month_of_the_range",
	Rule: "every day of 0001-01 x 7 first weekdays x every k below the week's index; oracle: Next(−k, month-separated) is week (index − k) of 0001-01 and Next(k) from there is the starting week again; K = 0 cases record the evaluation of a day; non-trivial: k > 0",
	Check: func(c edgeCase) error {
		w := calendar.NewSolarWeekFromYmd(1, 1, c.D, c.Start)
		idx := w.GetIndex()
		if c.K == 0 || c.K >= idx {
			return nil
		}
		b := w.Next(-c.K, true)
		if b.GetYear() != 1 || b.GetMonth() != 1 || b.GetIndex() != idx-c.K {
			return fmt.Errorf("week %d of 0001-01 (day %d, first weekday %d): Next(%d, month-separated) = %04d-%02d-%02d week %d, want week %d of 0001-01", idx, c.D, c.Start, -c.K, b.GetYear(), b.GetMonth(), b.GetDay(), b.GetIndex(), idx-c.K)
		}
		if f := b.Next(c.K, true); f.GetYear() != 1 || f.GetMonth() != 1 || f.GetIndex() != idx {
			return fmt.Errorf("week %d of 0001-01 (day %d, first weekday %d): Next(%d).Next(%d) = %04d-%02d week %d", idx, c.D, c.Start, -c.K, c.K, f.GetYear(), f.GetMonth(), f.GetIndex())
		}
		return nil
	},
	Class: func(c edgeCase) ([]string, bool) { return []string{"edge"}, c.K > 0 },
})

func TestC15(t *testing.T) {
	ev.Assume("R-civil (integer day numbers, weekday = (JDN+1) mod 7) defines weeks; a week's index counts week starts passed since the 1st, the partial first week being week 1")
	years := gen.HotYears()
	if ev.Thorough() {
		years = nil
		for y := 1; y <= 9998; y++ {
			years = append(years, y)
		}
		months.Exhaustive("every month of every year 1..9998 x 7 first weekdays (n = ±1, ±13 rotating)")
	}
	for _, y := range years {
		if !ev.Mine(y) || (!ev.Thorough() && y > 30 && y%4 != 2 && y != 1582) {
			continue
		}
		for m := 1; m <= 12; m++ {
			for s := 0; s < 7; s++ {
				months.Eval(monthCase{y, m, s, []int{1, -1, 13, -13}[(m+s)%4]})
			}
		}
	}
	// every day of 1582-09..11 x every start x small n
	if ev.Shard == 0 {
		for j := ref.JDN(1582, 9, 20); j <= ref.JDN(1582, 11, 10); j++ {
			for s := 0; s < 7; s++ {
				for _, n := range []int{0, 1, -1, 2, -2, 5, -5} {
					weeks.Eval(weekCase{j, s, n})
				}
			}
		}
	}
	// the ends of the supported range, every first weekday (0001-01-01 00:00:00 UTC is also Go's zero time)
	if ev.Shard == 0 {
		for _, j := range []int{ref.JDNMin, ref.JDNMin + 1, ref.JDNMin + 6, ref.JDNMax - 1, ref.JDNMax - 8} {
			for st := 0; st < 7; st++ {
				weeks.Eval(weekCase{j, st, 0})
				weeks.Eval(weekCase{j, st, 1})
			}
		}
	}
	// month-separated steps inside the first month of the range: from every day of 0001-01, k weeks back lands on week
	// (index − k) of the same month, and coming back returns (the general check leaves out steps that end within 40
	// days of the range ends; these stay inside the range)
	if ev.Shard == 1%ev.NShards {
		for st := 0; st < 7; st++ {
			for d := 1; d <= 28; d++ {
				w := calendar.NewSolarWeekFromYmd(1, 1, d, st)
				idx := w.GetIndex()
				for k := 1; k < idx; k++ {
					weeksRangeEnd.Eval(edgeCase{D: d, Start: st, K: k})
				}
			}
		}
	}
	weeks.Rapid(ev.Share(ev.Pick(24000, 480000)), func(t *rapid.T) weekCase {
		var j int
		switch rapid.IntRange(0, 4).Draw(t, "kind") {
		case 0:
			j = ref.JDN(1582, 9, 15) + rapid.IntRange(0, 70).Draw(t, "seam")
		case 1: // month / year ends
			y := gen.Year(t, 2, 9996)
			m := rapid.IntRange(1, 12).Draw(t, "m")
			if rapid.Bool().Draw(t, "yearEnd") {
				m = 12
			}
			j = ref.JDN(y, m, ref.LastDayNumber(y, m)) + rapid.IntRange(-6, 7).Draw(t, "aroundEnd")
		default:
			j = gen.DayIn(t, gen.Year(t, 2, 9996))
		}
		n := rapid.IntRange(-60, 60).Draw(t, "n")
		if rapid.IntRange(0, 2).Draw(t, "small") == 0 {
			n = rapid.IntRange(-3, 3).Draw(t, "ns")
		}
		return weekCase{j, rapid.IntRange(0, 6).Draw(t, "start"), n}
	})
	months.Rapid(ev.Share(ev.Pick(8000, 160000)), func(t *rapid.T) monthCase {
		y := gen.Year(t, 2, 9996)
		m := rapid.IntRange(1, 12).Draw(t, "m")
		if y == 1582 && rapid.Bool().Draw(t, "oct") {
			m = 10
		}
		return monthCase{y, m, rapid.IntRange(0, 6).Draw(t, "start"), rapid.IntRange(-60, 60).Draw(t, "n")}
	})
}
