//go:build verif

// C16 — nine-star values cycle by their classical step rules and stay in range.
package c16

import (
	"fmt"
	"strings"
	"testing"

	"github.com/6tail/lunar-go/calendar"
	"pgregory.net/rapid"
	"verif/internal/ev"
	"verif/internal/gen"
	"verif/internal/ref"
)

func TestMain(m *testing.M) { ev.Main(m, "C16") }

func jd(x ref.DT) int { return ref.JDN(x.Y, x.M, x.D) }

// ------------------------------------------------------------------------------------------
// day-level rules: year star, month star (sects 1..3 at noon), day star

type dayCase struct{ J int }

// nearest jiazi day(s) to solstice day s: one day, or two when the solstice is exactly 30 days from both
func nearestJiaZi(s int) []int {
	p := ref.DayPillar(s)
	switch {
	case p < 30:
		return []int{s - p}
	case p > 30:
		return []int{s + 60 - p}
	default:
		return []int{s - 30, s + 30}
	}
}

// dayStarAdmissible returns the admissible day-star indices for day j.
func dayStarAdmissible(j int) map[int]bool {
	y, _, _ := ref.FromJDN(j)
	type sw struct {
		day int
		up  bool
	}
	var sols []struct {
		day int
		up  bool
	}
	add := func(t ref.DT, up bool) {
		sols = append(sols, struct {
			day int
			up  bool
		}{jd(t), up})
	}
	if y > 1 {
		tp := gen.Terms(y - 1)
		add(tp[13], false)
	}
	ts := gen.Terms(y)
	add(ts[1], true)
	add(ts[13], false)
	add(ts[25], true)
	out := map[int]bool{}
	// enumerate tie resolutions
	var rec func(i int, chosen []sw)
	rec = func(i int, chosen []sw) {
		if i == len(sols) {
			best := -1
			for k, c := range chosen {
				if c.day <= j && (best < 0 || c.day > chosen[best].day) {
					best = k
				}
			}
			if best < 0 {
				return
			}
			c := chosen[best]
			if c.up {
				out[ref.Mod(j-c.day, 9)] = true
			} else {
				out[ref.Mod(8-(j-c.day), 9)] = true
			}
			return
		}
		for _, d := range nearestJiaZi(sols[i].day) {
			rec(i+1, append(append([]sw(nil), chosen...), sw{d, sols[i].up}))
		}
	}
	rec(0, nil)
	return out
}

// yearInForce returns the years in force at noon of day j under sects 1..3 and the Jie count (day level)
func jieDay(j int) (kDay int, isJieDay bool) {
	y, _, _ := ref.FromJDN(j)
	ts := gen.Terms(y)
	for i := 0; i < len(ts); i += 2 {
		d := jd(ts[i])
		if d <= j {
			kDay++
		}
		if d == j {
			isJieDay = true
		}
	}
	return
}

func noon(j int) *calendar.Lunar {
	y, m, d := ref.FromJDN(j)
	return calendar.NewSolar(y, m, d, 12, 0, 0).GetLunar()
}

func yearStarWant(yearInForce int) int { return ref.Mod(2-(yearInForce-2024), 9) }

// the early-January window in which the library extrapolates the day star backwards from the winter switch
func earlyJanuaryBeforeWinterSwitch(j int) bool {
	y, m, _ := ref.FromJDN(j)
	if m != 1 {
		return false
	}
	ts := gen.Terms(y)
	w := nearestJiaZi(jd(ts[1]))
	return j < w[len(w)-1]
}

var dayRules = ev.Register(&ev.P[dayCase]{
	Name: "year_month_day_star_rules",
	Rule: "every civil day of the sweep years (all years in thorough) and generated days at Lichun, Jie days, lunar New Year, both solstices ±35 days, Dec 25-Jan 25; at noon, compared with the previous day; oracle: year star index = (2 − (Y' − 2024)) mod 9 with Y' the year in force under the sect (lunar year / Lichun-day year / Lichun-instant year), so it is constant within the year and steps back by one at each change, 2024 = star three; LunarYear.GetNineStar likewise; month star decreases by exactly one (mod 9) from yesterday to today iff today is a Jie day, else is unchanged (pure step rule, sects 1..3); day star counts up from index 0 at the jiazi day nearest the winter solstice and down from index 8 at the jiazi day nearest the summer solstice (both choices admitted on an exact 30-day tie); all indices 0..8; non-trivial: the day is within 1 of a year change under some sect, a Jie day, a star-direction switch day, or in the Jan 1-21 window",
	Check: func(c dayCase) error {
		j := c.J
		y, mo, d := ref.FromJDN(j)
		day := fmt.Sprintf("%04d-%02d-%02d", y, mo, d)
		l := noon(j)
		k, isJie := jieDay(j)
		a := 12*(y-1) + 9 + k
		lichunYear := ref.FloorDiv(a, 12)
		yif := map[int]int{1: l.GetYear(), 2: lichunYear, 3: lichunYear}
		// at noon the instant-level year equals the day-level one unless Lichun falls later today
		if ts := gen.Terms(y); jd(ts[4]) == j && (ts[4].H > 12 || (ts[4].H == 12 && (ts[4].Mi > 0 || ts[4].S > 0))) {
			yif[3] = lichunYear - 1
		}
		for sect := 1; sect <= 3; sect++ {
			got := l.GetYearNineStarBySect(sect).GetIndex()
			if got < 0 || got > 8 {
				return fmt.Errorf("%s sect %d: year star index %d", day, sect, got)
			}
			if want := yearStarWant(yif[sect]); got != want {
				return fmt.Errorf("%s sect %d: year star index %d, but year in force %d gives %d (2024 = index 2, one step back per year)", day, sect, got, yif[sect], want)
			}
		}
		// one reused object asked in interleaved order answers like fresh objects (a memo keyed on too little shows here)
		freshVal := map[string]int{}
		for sect := 1; sect <= 3; sect++ { // one fresh object per question
			freshVal[fmt.Sprintf("Y%d", sect)] = noon(j).GetYearNineStarBySect(sect).GetIndex()
			freshVal[fmt.Sprintf("M%d", sect)] = noon(j).GetMonthNineStarBySect(sect).GetIndex()
		}
		fresh := func(kind string, sect int) int { return freshVal[fmt.Sprintf("%s%d", kind, sect)] }
		ru := noon(j)
		interleave := isJie || j%8 == 0 || l.GetYearZhiIndex() != l.GetYearZhiIndexByLiChun() || l.GetYearZhiIndexByLiChun() != l.GetYearZhiIndexExact()
		for a := 1; a <= 3 && interleave; a++ {
			for b := 1; b <= 3; b++ {
				seq := []struct {
					k string
					s int
				}{{"M", a}, {"Y", b}, {"M", b}, {"Y", a}}
				for _, q := range seq {
					var got int
					if q.k == "Y" {
						got = ru.GetYearNineStarBySect(q.s).GetIndex()
					} else {
						got = ru.GetMonthNineStarBySect(q.s).GetIndex()
					}
					if want := fresh(q.k, q.s); got != want {
						return fmt.Errorf("%s: on a reused Lunar, %s-star under sect %d (asked after other sects) is index %d, a fresh object gives %d", day, q.k, q.s, got, want)
					}
				}
			}
		}
		if g, w := calendar.NewLunarYear(l.GetYear()).GetNineStar().GetIndex(), yearStarWant(l.GetYear()); g != w {
			return fmt.Errorf("LunarYear(%d).GetNineStar index %d, want %d", l.GetYear(), g, w)
		}
		if l.GetYearNineStar().GetIndex() != l.GetYearNineStarBySect(2).GetIndex() {
			return fmt.Errorf("%s: default year star differs from sect 2", day)
		}
		if l.GetMonthNineStar().GetIndex() != l.GetMonthNineStarBySect(2).GetIndex() {
			return fmt.Errorf("%s: default month star differs from sect 2", day)
		}
		// month star: step rule against yesterday
		if j > ref.JDNMin {
			p := noon(j - 1)
			for _, sect := range []int{2, 3, 1} { // the sect with an open finding goes last so that it masks nothing
				if sect == 1 {
					// day star before the sect-1 month star (both have open findings)
					ds := l.GetDayNineStar().GetIndex()
					if ds < 0 || ds > 8 {
						return fmt.Errorf("%s: day star index %d", day, ds)
					}
					if adm := dayStarAdmissible(j); !adm[ds] {
						return fmt.Errorf("%s: day star index %d, counting from the jiazi days nearest the solstices gives %v", day, ds, keys(adm))
					}
				}
				a, b := p.GetMonthNineStarBySect(sect).GetIndex(), l.GetMonthNineStarBySect(sect).GetIndex()
				if b < 0 || b > 8 {
					return fmt.Errorf("%s sect %d: month star index %d", day, sect, b)
				}
				stepToday := isJie
				if sect == 3 { // instant level, observed at noon: the step shows today iff the Jie instant is at or before noon; a later one shows tomorrow
					stepToday = false
					for _, yy := range []int{y} {
						ts := gen.Terms(yy)
						for i := 0; i < len(ts); i += 2 {
							s := ts[i].Sec()
							lo := (ref.DT{Y: y, M: mo, D: d, H: 12}).Sec() - 86400
							hi := (ref.DT{Y: y, M: mo, D: d, H: 12}).Sec()
							if s > lo && s <= hi {
								stepToday = true
							}
						}
					}
				}
				want := a
				if stepToday {
					want = ref.Mod(a-1, 9)
				}
				if b != want {
					return fmt.Errorf("%s sect %d: month star index went %d -> %d from yesterday noon to today noon; a Jie in between: %v (steps back by one exactly at a Jie)", day, sect, a, b, stepToday)
				}
			}
		}
		// day star
		ds := l.GetDayNineStar().GetIndex()
		if ds < 0 || ds > 8 {
			return fmt.Errorf("%s: day star index %d", day, ds)
		}
		if adm := dayStarAdmissible(j); !adm[ds] {
			return fmt.Errorf("%s: day star index %d, counting from the jiazi days nearest the solstices gives %v", day, ds, keys(adm))
		}
		return nil
	},
	Class: func(c dayCase) ([]string, bool) {
		j := c.J
		y, mo, d := ref.FromJDN(j)
		ls := []string{gen.Era(y)}
		nt := false
		_, isJie := jieDay(j)
		if isJie {
			ls, nt = append(ls, "jieDay"), true
		}
		ts := gen.Terms(y)
		if dj := j - jd(ts[4]); dj >= -1 && dj <= 1 {
			ls, nt = append(ls, "nearLichun"), true
		}
		if dj := j - gen.NewYearJDN(y); dj >= -1 && dj <= 1 {
			ls, nt = append(ls, "nearNewYear"), true
		}
		for _, i := range []int{1, 13, 25} {
			for _, s := range nearestJiaZi(jd(ts[i])) {
				if j == s || j == s-1 {
					ls, nt = append(ls, "starSwitchDay"), true
				}
			}
			if ref.DayPillar(jd(ts[i])) == 30 {
				ls = append(ls, "solsticeTie")
			}
		}
		if mo == 1 && d <= 21 {
			ls, nt = append(ls, "jan1to21"), true
		}
		if noon(j).GetYearZhiIndex() != noon(j).GetYearZhiIndexByLiChun() {
			ls = append(ls, "betweenNewYearAndLichun")
		}
		return ls, nt
	},
	Known: func(c dayCase, err error) string {
		// signatures = input class + call site (which accessor failed), never the wrong value
		msg := err.Error()
		l := noon(c.J)
		if strings.Contains(msg, ": day star index") && earlyJanuaryBeforeWinterSwitch(c.J) {
			return "C16/daystar/early-january-before-winter-switch"
		}
		p := l
		if c.J > ref.JDNMin {
			p = noon(c.J - 1)
		}
		if strings.Contains(msg, "sect 1: month star index went") && (l.GetYearZhiIndex() != l.GetYearZhiIndexByLiChun() || p.GetYearZhiIndex() != p.GetYearZhiIndexByLiChun()) {
			return "C16/monthstar/sect1/between-newyear-and-lichun"
		}
		return ""
	},
	Require: []string{"jieDay", "nearLichun", "nearNewYear", "starSwitchDay", "jan1to21", "betweenNewYearAndLichun"},
})

func keys(m map[int]bool) []int {
	var out []int
	for i := 0; i < 9; i++ {
		if m[i] {
			out = append(out, i)
		}
	}
	return out
}

// ------------------------------------------------------------------------------------------
// hour star

type hourCase struct{ T ref.DT }

var hourStart = map[int][2]int{0: {0, 8}, 1: {3, 5}, 2: {6, 2}} // branch group -> (ascending start, descending start), 0-based

var hourRule = ev.Register(&ev.P[hourCase]{
	Name: "hour_star_rule",
	Rule: "generated moments (both solstice days ±2, 23:xx, every slot) and the 13 slot representatives of swept days; oracle: in the half that follows the winter-solstice day the star starts at 1/4/7 (day branch group 子午卯酉 / 辰戌丑未 / 寅申巳亥) in the 子 slot and ascends one per two-hour slot, in the other half it starts at 9/6/3 and descends; the day branch is the civil day's (at 23:xx either day's branch is admitted: the statement does not say); Lunar.GetTimeNineStar and the hour object agree; index 0..8; non-trivial: a solstice day, the day before it, or 23:xx",
	Check: func(c hourCase) error {
		t := c.T
		l := gen.Solar(t).GetLunar()
		j := jd(t)
		ts := gen.Terms(t.Y)
		asc := false
		for _, i := range []int{1, 13, 25} {
			if jd(ts[i]) <= j {
				asc = i != 13
			}
		}
		slot := ref.HourBranch(t.H)
		adm := map[int]bool{}
		branches := []int{ref.DayPillar(j) % 12}
		if t.H == 23 {
			branches = append(branches, ref.DayPillar(j+1)%12)
		}
		for _, b := range branches {
			grp := map[int]int{0: 0, 6: 0, 3: 0, 9: 0, 4: 1, 10: 1, 1: 1, 7: 1, 2: 2, 8: 2, 5: 2, 11: 2}[b]
			if asc {
				adm[ref.Mod(hourStart[grp][0]+slot, 9)] = true
			} else {
				adm[ref.Mod(hourStart[grp][1]-slot, 9)] = true
			}
		}
		got := l.GetTimeNineStar().GetIndex()
		if got < 0 || got > 8 || !adm[got] {
			return fmt.Errorf("%v (day branch %s, slot %d, ascending=%v): hour star index %d, rule gives %v", t, ref.Zhi[ref.DayPillar(j)%12], slot, asc, got, keys(adm))
		}
		if o := l.GetTime().GetNineStar().GetIndex(); o != got {
			return fmt.Errorf("%v: Lunar.GetTimeNineStar index %d but the hour object gives %d", t, got, o)
		}
		// the stars are no function of the eight-character chart's day-boundary switch (every 23:xx case, a share of
		// the others)
		if t.H != 23 && (t.D+t.H+t.Mi)%8 != 0 {
			return nil
		}
		y0, m0, d0 := l.GetYearNineStar().GetIndex(), l.GetMonthNineStar().GetIndex(), l.GetDayNineStar().GetIndex()
		l.GetEightChar().SetSect(1)
		y1, m1, d1, h1, o1 := l.GetYearNineStar().GetIndex(), l.GetMonthNineStar().GetIndex(), l.GetDayNineStar().GetIndex(), l.GetTimeNineStar().GetIndex(), l.GetTime().GetNineStar().GetIndex()
		l.GetEightChar().SetSect(2)
		if y1 != y0 || m1 != m0 || d1 != d0 || h1 != got || o1 != got {
			return fmt.Errorf("%v: year/month/day/hour stars %d/%d/%d/%d become %d/%d/%d/%d (hour object %d) after the chart's SetSect(1)", t, y0, m0, d0, got, y1, m1, d1, h1, o1)
		}
		return nil
	},
	Class: func(c hourCase) ([]string, bool) {
		ts := gen.Terms(c.T.Y)
		j := jd(c.T)
		var ls []string
		nt := false
		for _, i := range []int{1, 13, 25} {
			if d := j - jd(ts[i]); d == 0 || d == -1 {
				ls, nt = append(ls, "solsticeDayOrEve"), true
			}
		}
		if c.T.H == 23 {
			ls, nt = append(ls, "hour23"), true
		}
		if j >= jd(ts[25]) {
			ls = append(ls, "afterDecemberSolstice")
		}
		return ls, nt
	},
	Require: []string{"solsticeDayOrEve", "hour23", "afterDecemberSolstice"},
})

// ------------------------------------------------------------------------------------------
// naming getters index the same star; lunar-month stars

type starCase struct{ I int }

var naming = ev.Register(&ev.P[starCase]{
	Name: "naming_systems_index_same_star",
	Rule: "the nine star indices; oracle: every naming getter of NewNineStar(i) returns entry i of its exported table (number, colour, element, position, the three name systems, luck, yin-yang, type, gate, song); distinct = index",
	Check: func(c starCase) error {
		i := c.I
		s := calendar.NewNineStar(i)
		chk := []struct{ got, want, name string }{
			{s.GetNumber(), calendar.NUMBER[i], "GetNumber"}, {s.GetColor(), calendar.COLOR[i], "GetColor"}, {s.GetWuXing(), calendar.WU_XING[i], "GetWuXing"},
			{s.GetPosition(), calendar.POSITION[i], "GetPosition"}, {s.GetNameInXuanKong(), calendar.NAME_XUAN_KONG[i], "GetNameInXuanKong"},
			{s.GetNameInBeiDou(), calendar.NAME_BEI_DOU[i], "GetNameInBeiDou"}, {s.GetNameInQiMen(), calendar.NAME_QI_MEN[i], "GetNameInQiMen"},
			{s.GetNameInTaiYi(), calendar.NAME_TAI_YI[i], "GetNameInTaiYi"}, {s.GetLuckInQiMen(), calendar.LUCK_QI_MEN[i], "GetLuckInQiMen"},
			{s.GetLuckInXuanKong(), calendar.LUCK_XUAN_KONG[i], "GetLuckInXuanKong"}, {s.GetYinYangInQiMen(), calendar.YIN_YANG_QI_MEN[i], "GetYinYangInQiMen"},
			{s.GetTypeInTaiYi(), calendar.TYPE_TAI_YI[i], "GetTypeInTaiYi"}, {s.GetBaMenInQiMen(), calendar.BA_MEN_QI_MEN[i], "GetBaMenInQiMen"},
			{s.GetSongInTaiYi(), calendar.SONG_TAI_YI[i], "GetSongInTaiYi"},
		}
		if s.GetIndex() != i {
			return fmt.Errorf("NewNineStar(%d).GetIndex() = %d", i, s.GetIndex())
		}
		for _, x := range chk {
			if x.got != x.want {
				return fmt.Errorf("NewNineStar(%d).%s = %q, table entry %d is %q", i, x.name, x.got, i, x.want)
			}
		}
		return nil
	},
	Class:    func(c starCase) ([]string, bool) { return nil, true },
	Disjoint: true,
})

type monthCase struct{ Y int }

var lunarMonthStars = ev.Register(&ev.P[monthCase]{
	Name: "lunar_month_stars_step",
	Rule: "every lunar year of the sweep (outside AD 8-23 / 236-240 where month numbering is irregular); oracle: along the year's own months (and into month 1 of the next year) LunarMonth.GetNineStar steps back by exactly one per month, a leap month sharing the star of the month whose number it repeats; index 0..8; distinct = year",
	Check: func(c monthCase) error {
		y := c.Y
		if (y >= 7 && y <= 24) || (y >= 235 && y <= 241) || y >= 9998 {
			return nil
		}
		var ms []*calendar.LunarMonth
		for e := calendar.NewLunarYear(y).GetMonthsInYear().Front(); e != nil; e = e.Next() {
			ms = append(ms, e.Value.(*calendar.LunarMonth))
		}
		ms = append(ms, calendar.NewLunarMonthFromYm(y+1, 1))
		for i := 1; i < len(ms); i++ {
			a, b := ms[i-1].GetNineStar().GetIndex(), ms[i].GetNineStar().GetIndex()
			if b < 0 || b > 8 {
				return fmt.Errorf("lunar month %d/%d: star index %d", ms[i].GetYear(), ms[i].GetMonth(), b)
			}
			want := ref.Mod(a-1, 9)
			if ms[i].IsLeap() {
				want = a
			}
			if b != want {
				return fmt.Errorf("lunar months %d/%d -> %d/%d: star index %d -> %d, want %d", ms[i-1].GetYear(), ms[i-1].GetMonth(), ms[i].GetYear(), ms[i].GetMonth(), a, b, want)
			}
		}
		return nil
	},
	Class:    func(c monthCase) ([]string, bool) { return []string{gen.Era(c.Y)}, true },
	Disjoint: true,
})

func TestC16(t *testing.T) {
	ev.Assume("year in force and Jie days as modelled in C05 from the civil year's term table (C03); 2024 = star three is the statement's anchor")
	for i := 0; i < 9; i++ {
		if ev.Mine(i) {
			naming.Eval(starCase{i})
		}
	}
	naming.Exhaustive("the nine stars")
	years := gen.HotYears()
	if ev.Thorough() {
		years = nil
		for y := 1; y <= 9998; y++ {
			years = append(years, y)
		}
		dayRules.Exhaustive("every civil day 0001-01-01..9998-12-31 at noon, sects 1..3")
		lunarMonthStars.Exhaustive("every lunar year 1..9997")
	}
	for _, y := range years {
		if !ev.Mine(y) {
			continue
		}
		lunarMonthStars.Eval(monthCase{y})
		if !ev.Thorough() && y > 30 && y%5 != 0 && y != 1582 && y != 1905 && y != 1906 {
			continue
		}
		for j := ref.JDN(y, 1, 1); j <= ref.JDN(y, 12, 31); j++ {
			dayRules.Eval(dayCase{j})
			if j%5 == 0 || ev.Thorough() {
				yy, mm, dd := ref.FromJDN(j)
				for _, h := range []int{0, 1, 3, 5, 7, 9, 11, 13, 15, 17, 19, 21, 23} {
					if ev.Thorough() && h != 0 && h != 23 && (j+h)%6 != 0 {
						continue
					}
					hourRule.Eval(hourCase{ref.DT{Y: yy, M: mm, D: dd, H: h, Mi: 30}})
				}
			}
		}
	}
	// every year's day-star switch days: the 甲子 day nearest to each solstice (in the years where the two 甲子 days on either side of the solstice are almost equally near, or
	// one of them is next to the solstice) and the days around them — the extreme calendar positions of the switch
	// days occur in those years, some of them in a single year
	for y := 1; y <= 9998; y++ {
		if !ev.Mine(y) {
			continue
		}
		ts := gen.Terms(y)
		for _, i := range []int{1, 13, 25} {
			sj := jd(ts[i])
			back := ref.Mod(ref.DayPillar(sj), 60) // days since the last 甲子 day
			for _, a := range []int{sj - back, sj - back + 60} {
				if dist := ref.Mod(a-sj, 60); !(back >= 26 && back <= 34) && dist > 1 && dist < 59 {
					continue // only the years where the choice between the two 甲子 days is close, or the day is the solstice's neighbour
				}
				for d := -1; d <= 1; d++ {
					if j := a + d; j > ref.JDNMin+1 && j < ref.JDNMax-1 {
						if yy, _, _ := ref.FromJDN(j); yy == y {
							dayRules.Eval(dayCase{j})
						}
					}
				}
			}
			// the solstice day itself with its lunar date at a month end or start: the hour star's half is decided by it
			for d := -1; d <= 1; d++ {
				if x := ts[i].AddDays(d); x.Y == y {
					if ld := calendar.NewSolarFromYmd(x.Y, x.M, x.D).GetLunar().GetDay(); ld >= 29 || ld <= 1 {
						for _, h := range []int{0, 9, 23} {
							hourRule.Eval(hourCase{ref.DT{Y: x.Y, M: x.M, D: x.D, H: h, Mi: 30}})
						}
					}
				}
			}
		}
	}
	// the same questions in scrambled order: a dense window of days (each shard its own 800 days around 2022-2031,
	// shard 0 also AD 14-19) is asked again in generated permutations — the oracle is unchanged, only what was asked
	// just before is new
	{
		start := ref.JDN(2022, 1, 1) + ev.Shard*200
		if ev.Shard == 0 {
			start = ref.JDN(14, 6, 1)
		}
		for pi, perm := range ev.Shuffled(800, ev.Pick(3, 12), 16) {
			for _, k := range perm {
				j := start + k
				yy, mm, dd := ref.FromJDN(j)
				if (k+pi)%2 == 0 {
					dayRules.Eval(dayCase{j})
				} else {
					hourRule.Eval(hourCase{ref.DT{Y: yy, M: mm, D: dd, H: []int{9, 0, 23, 15}[(k/2)%4], Mi: 30}})
				}
			}
		}
	}
	dayRules.Rapid(ev.Share(ev.Pick(12000, 160000)), func(t *rapid.T) dayCase {
		y := gen.Year(t, 1, 9998)
		ts := gen.Terms(y)
		var j int
		switch rapid.IntRange(0, 5).Draw(t, "kind") {
		case 0:
			j = jd(ts[2*rapid.IntRange(1, 13).Draw(t, "jie")]) + rapid.IntRange(-1, 1).Draw(t, "dj")
		case 1:
			j = gen.NewYearJDN(y) + rapid.IntRange(-2, 2).Draw(t, "ny")
		case 2:
			j = jd(ts[rapid.SampledFrom([]int{1, 13, 25}).Draw(t, "sol")]) + rapid.IntRange(-35, 35).Draw(t, "ds")
		case 3:
			j = ref.JDN(y, 1, 1) + rapid.IntRange(-7, 25).Draw(t, "jan")
		default:
			j = gen.DayIn(t, y)
		}
		if j < ref.JDNMin+1 {
			j = ref.JDNMin + 1
		}
		if j > ref.JDNMax {
			j = ref.JDNMax
		}
		return dayCase{j}
	})
	hourRule.Rapid(ev.Share(ev.Pick(12000, 160000)), func(t *rapid.T) hourCase {
		m := gen.Moment(t)
		if rapid.IntRange(0, 2).Draw(t, "sol") == 0 {
			ts := gen.Terms(m.Y)
			x := ts[rapid.SampledFrom([]int{13, 25}).Draw(t, "which")]
			j := jd(x) + rapid.IntRange(-2, 2).Draw(t, "d")
			y, mo, d := ref.FromJDN(j)
			if y == m.Y {
				m.Y, m.M, m.D = y, mo, d
			}
		}
		return hourCase{m}
	})
}
