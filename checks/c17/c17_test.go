//go:build verif

// C17 — Taoist/Buddhist dates are the lunar date with a fixed year offset and round-trip.
package c17

import (
	"fmt"
	"strings"
	"sync"
	"testing"

	"github.com/6tail/lunar-go/FotoUtil"
	"github.com/6tail/lunar-go/TaoUtil"
	"github.com/6tail/lunar-go/calendar"
	"pgregory.net/rapid"
	"verif/internal/ev"
	"verif/internal/gen"
	"verif/internal/ref"
)

func TestMain(m *testing.M) { ev.Main(m, "C17") }

type dayCase struct {
	J        int
	H, Mi, S int
}

var (
	fdMu sync.Mutex
	fd   = map[string]string{}
	fdW  = map[string]string{}
)

func depend(attr, key string, val interface{}, witness string) error {
	k := attr + "|" + key
	v := fmt.Sprint(val)
	fdMu.Lock()
	defer fdMu.Unlock()
	if old, ok := fd[k]; ok {
		if old != v {
			return fmt.Errorf("%s with defining inputs (%s) is %s on %s but %s on %s", attr, key, old, fdW[k], v, witness)
		}
		return nil
	}
	fd[k], fdW[k] = v, witness
	return nil
}

func in(list []string, k string) bool {
	for _, v := range list {
		if v == k {
			return true
		}
	}
	return false
}

func abs(x int) int {
	if x < 0 {
		return -x
	}
	return x
}

var taoFoto = ev.Register(&ev.P[dayCase]{
	Name: "year_offset_fields_roundtrip_predicates",
	Rule: "every civil day of the sweep years at noon (all years in thorough) and generated moments (leap months, Jan/Feb days of the previous lunar year, the days where the lunar year leads, days 28-30, term days); oracle: Tao year = lunar year + 2697, Foto year = lunar year + 544, month/day equal the lunar month/day; NewTao/NewFoto(year, month, day, h, mi, s) give the same civil moment as the lunar date and return the numbers given (also the *FromYmd forms); predicates equal their published definitions for regular months (san-hui/san-yuan/wu-la/guan-yin <=> 'm-d' in the exported list; ming-wu <=> day stem 戊; an-wu <=> day branch = AN_WU[|m|-1]; ba-jie <=> the day's term in BA_JIE; ba-hui <=> day pillar in BA_HUI; zhai days by day number, zhai-six day 28 by month length; month-zhai for months 1/5/9; xiu = XIU_27[(offset[|m|-1]+d-1) mod 27]; yang-gong <=> the festival table lists it) and every predicate is a function of its defining inputs over the whole run (leap months included); non-trivial: leap month, lunar year != civil year, day 28-30, or the day has a term",
	Check: func(c dayCase) error {
		y, mo, d := ref.FromJDN(c.J)
		s := calendar.NewSolar(y, mo, d, c.H, c.Mi, c.S)
		l := s.GetLunar()
		// between building the date and asking it, the library is used for a neighbouring year (whatever table the
		// one-slot cache holds when a predicate is asked must not matter)
		if ny := l.GetYear() + []int{-1, 1}[ref.Mod(c.J, 2)]; ny >= 1 && ny <= 9998 {
			_ = calendar.NewLunarYear(ny)
		}
		w := s.ToYmdHms()
		ly, lm, ld := l.GetYear(), l.GetMonth(), l.GetDay()
		tao, foto := l.GetTao(), l.GetFoto()
		if tao.GetYear() != ly+2697 || tao.GetMonth() != lm || tao.GetDay() != ld {
			return fmt.Errorf("%s (lunar %d/%d/%d): Tao date %d/%d/%d, want year %d", w, ly, lm, ld, tao.GetYear(), tao.GetMonth(), tao.GetDay(), ly+2697)
		}
		if foto.GetYear() != ly+544 || foto.GetMonth() != lm || foto.GetDay() != ld {
			return fmt.Errorf("%s (lunar %d/%d/%d): Foto date %d/%d/%d, want year %d", w, ly, lm, ld, foto.GetYear(), foto.GetMonth(), foto.GetDay(), ly+544)
		}
		if tao.GetLunar() != l || foto.GetLunar() != l {
			return fmt.Errorf("%s: GetTao/GetFoto do not wrap the lunar date they came from", w)
		}
		// constructors
		t2 := calendar.NewTao(tao.GetYear(), lm, ld, c.H, c.Mi, c.S)
		f2 := calendar.NewFoto(foto.GetYear(), lm, ld, c.H, c.Mi, c.S)
		if g := t2.GetLunar().GetSolar().ToYmdHms(); g != w || t2.GetYear() != tao.GetYear() || t2.GetMonth() != lm || t2.GetDay() != ld {
			return fmt.Errorf("%s: NewTao(%d,%d,%d,…) = %d/%d/%d at %s", w, tao.GetYear(), lm, ld, t2.GetYear(), t2.GetMonth(), t2.GetDay(), g)
		}
		if g := f2.GetLunar().GetSolar().ToYmdHms(); g != w || f2.GetYear() != foto.GetYear() || f2.GetMonth() != lm || f2.GetDay() != ld {
			return fmt.Errorf("%s: NewFoto(%d,%d,%d,…) = %d/%d/%d at %s", w, foto.GetYear(), lm, ld, f2.GetYear(), f2.GetMonth(), f2.GetDay(), g)
		}
		if c.H == 0 && c.Mi == 0 && c.S == 0 {
			t3, f3 := calendar.NewTaoFromYmd(tao.GetYear(), lm, ld), calendar.NewFotoFromYmd(foto.GetYear(), lm, ld)
			if t3.GetLunar().GetSolar().ToYmdHms() != w || f3.GetLunar().GetSolar().ToYmdHms() != w {
				return fmt.Errorf("%s: NewTaoFromYmd/NewFotoFromYmd give %s / %s", w, t3.GetLunar().GetSolar().ToYmdHms(), f3.GetLunar().GetSolar().ToYmdHms())
			}
		}
		// defining inputs
		md := fmt.Sprintf("%d-%d", lm, ld)
		amd := fmt.Sprintf("%d-%d", abs(lm), ld)
		dp := ref.DayPillar(c.J)
		gz := ref.Pair(dp)
		term := ""
		for i, x := range gen.Terms(y) {
			if x.Y == y && x.M == mo && x.D == d {
				term = termNames[i]
			}
		}
		mlen := calendar.NewLunarMonthFromYm(ly, lm).GetDayCount()
		type pred struct {
			name string
			got  bool
			key  string
			def  *bool
		}
		b := func(v bool) *bool { return &v }
		var reg *bool
		_ = reg
		regular := lm > 0
		defIf := func(v bool) *bool {
			if regular {
				return b(v)
			}
			return nil
		}
		_, baJie := TaoUtil.BA_JIE[term]
		_, baHui := TaoUtil.BA_HUI[gz]
		yangGong := false
		for _, o := range FotoUtil.FESTIVAL[amd] {
			if o[0] == "杨公忌" {
				yangGong = true
			}
		}
		six := ld == 8 || ld == 14 || ld == 15 || ld == 23 || ld == 29 || ld == 30 || (ld == 28 && mlen != 30)
		ten := ld == 1 || ld == 8 || ld == 14 || ld == 15 || ld == 18 || ld == 23 || ld == 24 || ld == 28 || ld == 29 || ld == 30
		ps := []pred{
			{"Tao.IsDaySanHui", tao.IsDaySanHui(), md, defIf(in(TaoUtil.SAN_HUI, md))},
			{"Tao.IsDaySanYuan", tao.IsDaySanYuan(), md, defIf(in(TaoUtil.SAN_YUAN, md))},
			{"Tao.IsDayWuLa", tao.IsDayWuLa(), md, defIf(in(TaoUtil.WU_LA, md))},
			{"Tao.IsDayMingWu", tao.IsDayMingWu(), ref.Gan[dp%10], b(dp%10 == 4)},
			{"Tao.IsDayAnWu", tao.IsDayAnWu(), fmt.Sprintf("%d|%s", abs(lm), ref.Zhi[dp%12]), b(ref.Zhi[dp%12] == TaoUtil.AN_WU[abs(lm)-1])},
			{"Tao.IsDayWu", tao.IsDayWu(), fmt.Sprintf("%d|%s", abs(lm), gz), b(dp%10 == 4 || ref.Zhi[dp%12] == TaoUtil.AN_WU[abs(lm)-1])},
			{"Tao.IsDayBaJie", tao.IsDayBaJie(), "term:" + term, b(baJie)},
			{"Tao.IsDayBaHui", tao.IsDayBaHui(), gz, b(baHui)},
			{"Foto.IsMonthZhai", foto.IsMonthZhai(), fmt.Sprint(lm), defIf(lm == 1 || lm == 5 || lm == 9)},
			{"Foto.IsDayZhaiShuoWang", foto.IsDayZhaiShuoWang(), fmt.Sprint(ld), b(ld == 1 || ld == 15)},
			{"Foto.IsDayZhaiSix", foto.IsDayZhaiSix(), fmt.Sprintf("%d|len%d", ld, mlen), b(six)},
			{"Foto.IsDayZhaiTen", foto.IsDayZhaiTen(), fmt.Sprint(ld), b(ten)},
			{"Foto.IsDayZhaiGuanYin", foto.IsDayZhaiGuanYin(), md, defIf(in(FotoUtil.DAY_ZHAI_GUAN_YIN, md))},
			{"Foto.IsDayYangGong", foto.IsDayYangGong(), amd, b(yangGong)},
		}
		for _, p := range ps {
			if p.def != nil && p.got != *p.def {
				return fmt.Errorf("%s (lunar %d/%d/%d, day pillar %s, term %q): %s = %v, its definition gives %v", w, ly, lm, ld, gz, term, p.name, p.got, *p.def)
			}
			if err := depend(p.name, p.key, p.got, w); err != nil {
				return err
			}
		}
		wantXiu := FotoUtil.XIU_27[(FotoUtil.XIU_OFFSET[abs(lm)-1]+ld-1)%27]
		if foto.GetXiu() != wantXiu {
			return fmt.Errorf("%s (lunar %d/%d): Foto.GetXiu = %s, definition gives %s", w, lm, ld, foto.GetXiu(), wantXiu)
		}
		// Taoist festival list = table entries + solstice births + ba-jie + ba-hui
		var wantF []string
		for _, o := range TaoUtil.FESTIVAL[md] {
			wantF = append(wantF, o[0])
		}
		if term == "冬至" {
			wantF = append(wantF, "元始天尊圣诞")
		} else if term == "夏至" {
			wantF = append(wantF, "灵宝天尊圣诞")
		}
		if f, ok := TaoUtil.BA_JIE[term]; ok {
			wantF = append(wantF, f)
		}
		if f, ok := TaoUtil.BA_HUI[gz]; ok {
			wantF = append(wantF, f)
		}
		var gotF []string
		for e := tao.GetFestivals().Front(); e != nil; e = e.Next() {
			gotF = append(gotF, e.Value.(*calendar.TaoFestival).GetName())
		}
		if strings.Join(gotF, "|") != strings.Join(wantF, "|") {
			return fmt.Errorf("%s (lunar %d/%d/%d, pillar %s, term %q): Tao festivals %v, definitions give %v", w, ly, lm, ld, gz, term, gotF, wantF)
		}
		var wantFo, gotFo []string
		for _, o := range FotoUtil.FESTIVAL[amd] {
			wantFo = append(wantFo, o[0])
		}
		for e := foto.GetFestivals().Front(); e != nil; e = e.Next() {
			gotFo = append(gotFo, e.Value.(*calendar.FotoFestival).GetName())
		}
		if strings.Join(gotFo, "|") != strings.Join(wantFo, "|") {
			return fmt.Errorf("%s (lunar %d/%d): Foto festivals %v, table gives %v", w, lm, ld, gotFo, wantFo)
		}
		// Taoist and Buddhist facts are no function of the eight-character chart's day-boundary switch
		preds := func() string {
			return fmt.Sprint(tao.IsDayBaJie(), tao.IsDayBaHui(), tao.IsDayMingWu(), tao.IsDayAnWu(), tao.IsDayWu(), tao.IsDaySanHui(), tao.IsDaySanYuan(), tao.IsDayWuLa(),
				foto.IsDayYangGong(), foto.IsDayZhaiShuoWang(), foto.IsDayZhaiSix(), foto.IsDayZhaiTen(), foto.IsDayZhaiGuanYin(), foto.IsMonthZhai(), foto.GetXiu(), foto.GetGong(), foto.GetShou())
		}
		p0 := preds()
		if ny := l.GetYear() + []int{1, -1}[ref.Mod(c.J, 2)]; ny >= 1 && ny <= 9998 { // the other neighbour's table is in the cache for the second asking
			_ = calendar.NewLunarYear(ny)
		}
		l.GetEightChar().SetSect(1)
		if p1 := preds(); p1 != p0 {
			return fmt.Errorf("%s (lunar %d/%d/%d): Tao/Foto predicates %s become %s after the chart's SetSect(1)", w, ly, lm, ld, p0, p1)
		}
		// the same objects asked again (and after their predicates and printed forms were used) give the same lists
		_, _, _, _ = tao.IsDayBaJie(), tao.IsDayBaHui(), tao.ToFullString(), foto.ToFullString()
		var againT, againF []string
		for e := tao.GetFestivals().Front(); e != nil; e = e.Next() {
			againT = append(againT, e.Value.(*calendar.TaoFestival).GetName())
		}
		for e := foto.GetFestivals().Front(); e != nil; e = e.Next() {
			againF = append(againF, e.Value.(*calendar.FotoFestival).GetName())
		}
		if strings.Join(againT, "|") != strings.Join(wantF, "|") || strings.Join(againF, "|") != strings.Join(wantFo, "|") {
			return fmt.Errorf("%s (lunar %d/%d/%d): asked a second time the same Tao/Foto objects list %v / %v, first answer %v / %v", w, ly, lm, ld, againT, againF, wantF, wantFo)
		}
		return nil
	},
	Class: func(c dayCase) ([]string, bool) {
		y, mo, d := ref.FromJDN(c.J)
		l := calendar.NewSolarFromYmd(y, mo, d).GetLunar()
		ls := []string{gen.Era(y)}
		nt := false
		if l.GetMonth() < 0 {
			ls, nt = append(ls, "leapMonth"), true
		}
		if l.GetYear() != y {
			ls, nt = append(ls, "lunarYear!=civilYear"), true
			if l.GetYear() > y {
				ls = append(ls, "lunarYearLeads")
			}
		}
		if l.GetDay() >= 28 {
			ls, nt = append(ls, "day28to30"), true
		}
		if l.GetJieQi() != "" {
			ls, nt = append(ls, "termDay"), true
		}
		return ls, nt
	},
	Require: []string{"leapMonth", "lunarYear!=civilYear", "lunarYearLeads", "day28to30", "termDay"},
})

var termNames = []string{"大雪", "冬至", "小寒", "大寒", "立春", "雨水", "惊蛰", "春分", "清明", "谷雨", "立夏", "小满", "芒种", "夏至", "小暑", "大暑", "立秋", "处暑", "白露", "秋分", "寒露", "霜降", "立冬", "小雪", "大雪", "冬至", "小寒", "大寒", "立春", "雨水", "惊蛰"}

func TestC17(t *testing.T) {
	ev.Assume("exported TaoUtil/FotoUtil tables are the published definitions; term days from the civil year's table (C03); day pillar from R-gz")
	years := gen.HotYears()
	if ev.Thorough() {
		years = nil
		for y := 1; y <= 9998; y++ {
			years = append(years, y)
		}
		taoFoto.Exhaustive("every civil day 0001-01-01..9998-12-31 at 12:00:00")
	}
	for _, y := range years {
		if !ev.Mine(y) || (!ev.Thorough() && y > 30 && y%5 != 0 && y != 1582) {
			continue
		}
		for j := ref.JDN(y, 1, 1); j <= ref.JDN(y, 12, 31); j++ {
			taoFoto.Eval(dayCase{j, 12, 0, 0})
		}
	}
	// the seven days on which the lunar year number runs ahead of the civil year
	if ev.Shard == 0 {
		for _, x := range [][3]int{{15, 12, 30}, {15, 12, 31}, {18, 12, 27}, {18, 12, 28}, {18, 12, 29}, {18, 12, 30}, {18, 12, 31}} {
			taoFoto.Eval(dayCase{ref.JDN(x[0], x[1], x[2]), 0, 0, 0})
			taoFoto.Eval(dayCase{ref.JDN(x[0], x[1], x[2]), 23, 59, 59})
		}
	}
	// a dense window of days asked again in scrambled order (same oracle, different predecessor: a memo keyed on too
	// little answers the previous question)
	{
		start := ref.JDN(2019, 1, 1) + ev.Shard*230
		if ev.Shard == 0 {
			start = ref.JDN(18, 4, 1) // the years whose neighbouring tables label a month differently
		}
		for _, perm := range ev.Shuffled(460, ev.Pick(2, 8), 17) {
			for _, k := range perm {
				taoFoto.Eval(dayCase{start + k, []int{12, 23, 0}[k%3], 30, 0})
			}
		}
	}
	taoFoto.Rapid(ev.Share(ev.Pick(16000, 320000)), func(t *rapid.T) dayCase {
		m := gen.Moment(t)
		if rapid.IntRange(0, 3).Draw(t, "leap") == 0 {
			y := gen.Year(t, 1, 9997)
			ly := calendar.NewLunarYear(y)
			if lp := ly.GetLeapMonth(); lp != 0 {
				lm := ly.GetMonth(-lp)
				d := rapid.IntRange(1, lm.GetDayCount()).Draw(t, "d")
				j := int(lm.GetFirstJulianDay()+0.5) + d - 1
				if j >= ref.JDNMin && j <= ref.JDNMax {
					return dayCase{j, m.H, m.Mi, m.S}
				}
			}
		}
		return dayCase{ref.JDN(m.Y, m.M, m.D), m.H, m.Mi, m.S}
	})
}
