//go:build verif

// C18 — almanac attributes are pure functions of the pillars they are defined on.
package c18

import (
	"container/list"
	"fmt"
	"strings"
	"sync"
	"testing"

	"github.com/6tail/lunar-go/LunarUtil"
	"github.com/6tail/lunar-go/calendar"
	"pgregory.net/rapid"
	"verif/internal/ev"
	"verif/internal/gen"
	"verif/internal/ref"
)

func TestMain(m *testing.M) { ev.Main(m, "C18") }

func join(l *list.List) string {
	var out []string
	for e := l.Front(); e != nil; e = e.Next() {
		out = append(out, e.Value.(string))
	}
	return strings.Join(out, ",")
}

type ctx struct {
	t  ref.DT
	l  *calendar.Lunar
	m  gen.PillarModel
	lm int // lunar month (signed)
	ld int // lunar day
	wd int // weekday
}

func newCtx(t ref.DT) ctx {
	l := gen.Solar(t).GetLunar()
	return ctx{t: t, l: l, m: gen.Pillars(t, l.GetYear()), lm: l.GetMonth(), ld: l.GetDay(), wd: ref.Weekday(ref.JDN(t.Y, t.M, t.D))}
}

func abs(x int) int {
	if x < 0 {
		return -x
	}
	return x
}

// ------------------------------------------------------------------------------------------
// attributes with a published table: value must equal the table entry of the defining inputs,
// the inputs being taken from the independent pillar model (so a wrong-variant lookup shows).

type direct struct {
	name string
	get  func(c ctx) string
	want func(c ctx) string
}

func g(i int) int        { return i%10 + 1 } // 1-based stem index into GAN-keyed tables
func z(i int) int        { return i%12 + 1 }
func pd(s string) string { return LunarUtil.POSITION_DESC[s] }
func chongDesc(p int) string {
	zh := LunarUtil.CHONG[p%12]
	animal := ""
	for i, v := range LunarUtil.ZHI {
		if v == zh {
			animal = LunarUtil.SHENG_XIAO[i]
		}
	}
	return "(" + LunarUtil.CHONG_GAN[p%10] + zh + ")" + animal
}

var directs = []direct{
	// by the day stem
	{"GetDayPositionXi", func(c ctx) string { return c.l.GetDayPositionXi() }, func(c ctx) string { return LunarUtil.POSITION_XI[g(c.m.Day)] }},
	{"GetDayPositionXiDesc", func(c ctx) string { return c.l.GetDayPositionXiDesc() }, func(c ctx) string { return pd(LunarUtil.POSITION_XI[g(c.m.Day)]) }},
	{"GetDayPositionYangGui", func(c ctx) string { return c.l.GetDayPositionYangGui() }, func(c ctx) string { return LunarUtil.POSITION_YANG_GUI[g(c.m.Day)] }},
	{"GetDayPositionYangGuiDesc", func(c ctx) string { return c.l.GetDayPositionYangGuiDesc() }, func(c ctx) string { return pd(LunarUtil.POSITION_YANG_GUI[g(c.m.Day)]) }},
	{"GetDayPositionYinGui", func(c ctx) string { return c.l.GetDayPositionYinGui() }, func(c ctx) string { return LunarUtil.POSITION_YIN_GUI[g(c.m.Day)] }},
	{"GetDayPositionYinGuiDesc", func(c ctx) string { return c.l.GetDayPositionYinGuiDesc() }, func(c ctx) string { return pd(LunarUtil.POSITION_YIN_GUI[g(c.m.Day)]) }},
	{"GetDayPositionFuBySect(1)", func(c ctx) string { return c.l.GetDayPositionFuBySect(1) }, func(c ctx) string { return LunarUtil.POSITION_FU[g(c.m.Day)] }},
	{"GetDayPositionFuBySect(2)", func(c ctx) string { return c.l.GetDayPositionFuBySect(2) }, func(c ctx) string { return LunarUtil.POSITION_FU_2[g(c.m.Day)] }},
	{"GetDayPositionFuDescBySect(2)", func(c ctx) string { return c.l.GetDayPositionFuDescBySect(2) }, func(c ctx) string { return pd(LunarUtil.POSITION_FU_2[g(c.m.Day)]) }},
	{"GetDayPositionCai", func(c ctx) string { return c.l.GetDayPositionCai() }, func(c ctx) string { return LunarUtil.POSITION_CAI[g(c.m.Day)] }},
	{"GetDayPositionCaiDesc", func(c ctx) string { return c.l.GetDayPositionCaiDesc() }, func(c ctx) string { return pd(LunarUtil.POSITION_CAI[g(c.m.Day)]) }},
	{"GetPengZuGan", func(c ctx) string { return c.l.GetPengZuGan() }, func(c ctx) string { return LunarUtil.PENGZU_GAN[g(c.m.Day)] }},
	{"GetDayChongGan", func(c ctx) string { return c.l.GetDayChongGan() }, func(c ctx) string { return LunarUtil.CHONG_GAN[c.m.Day%10] }},
	{"GetDayChongGanTie", func(c ctx) string { return c.l.GetDayChongGanTie() }, func(c ctx) string { return LunarUtil.CHONG_GAN_TIE[c.m.Day%10] }},
	// by the day branch
	{"GetPengZuZhi", func(c ctx) string { return c.l.GetPengZuZhi() }, func(c ctx) string { return LunarUtil.PENGZU_ZHI[z(c.m.Day)] }},
	{"GetDayChong", func(c ctx) string { return c.l.GetDayChong() }, func(c ctx) string { return LunarUtil.CHONG[c.m.Day%12] }},
	{"GetDaySha", func(c ctx) string { return c.l.GetDaySha() }, func(c ctx) string { return LunarUtil.SHA[ref.Zhi[c.m.Day%12]] }},
	{"GetDayShengXiao", func(c ctx) string { return c.l.GetDayShengXiao() }, func(c ctx) string { return LunarUtil.SHENG_XIAO[z(c.m.Day)] }},
	{"GetDayChongDesc", func(c ctx) string { return c.l.GetDayChongDesc() }, func(c ctx) string { return chongDesc(c.m.Day) }},
	// by the day pair (three day-boundary variants)
	{"GetDayNaYin", func(c ctx) string { return c.l.GetDayNaYin() }, func(c ctx) string { return LunarUtil.NAYIN[ref.Pair(c.m.Day)] }},
	{"GetDayXun", func(c ctx) string { return c.l.GetDayXun() }, func(c ctx) string { return LunarUtil.GetXun(ref.Pair(c.m.Day)) }},
	{"GetDayXunKong", func(c ctx) string { return c.l.GetDayXunKong() }, func(c ctx) string { return LunarUtil.GetXunKong(ref.Pair(c.m.Day)) }},
	{"GetDayXunExact", func(c ctx) string { return c.l.GetDayXunExact() }, func(c ctx) string { return LunarUtil.GetXun(ref.Pair(c.m.DayEx)) }},
	{"GetDayXunKongExact", func(c ctx) string { return c.l.GetDayXunKongExact() }, func(c ctx) string { return LunarUtil.GetXunKong(ref.Pair(c.m.DayEx)) }},
	{"GetDayXunExact2", func(c ctx) string { return c.l.GetDayXunExact2() }, func(c ctx) string { return LunarUtil.GetXun(ref.Pair(c.m.DayEx2)) }},
	{"GetDayXunKongExact2", func(c ctx) string { return c.l.GetDayXunKongExact2() }, func(c ctx) string { return LunarUtil.GetXunKong(ref.Pair(c.m.DayEx2)) }},
	{"GetDayPositionTai", func(c ctx) string { return c.l.GetDayPositionTai() }, func(c ctx) string { return LunarUtil.POSITION_TAI_DAY[c.m.Day] }},
	// by the hour stem / branch / pair
	{"GetTimePositionXi", func(c ctx) string { return c.l.GetTimePositionXi() }, func(c ctx) string { return LunarUtil.POSITION_XI[g(c.m.Time)] }},
	{"GetTimePositionYangGui", func(c ctx) string { return c.l.GetTimePositionYangGui() }, func(c ctx) string { return LunarUtil.POSITION_YANG_GUI[g(c.m.Time)] }},
	{"GetTimePositionYinGui", func(c ctx) string { return c.l.GetTimePositionYinGui() }, func(c ctx) string { return LunarUtil.POSITION_YIN_GUI[g(c.m.Time)] }},
	{"GetTimePositionCai", func(c ctx) string { return c.l.GetTimePositionCai() }, func(c ctx) string { return LunarUtil.POSITION_CAI[g(c.m.Time)] }},
	{"GetTimePositionCaiDesc", func(c ctx) string { return c.l.GetTimePositionCaiDesc() }, func(c ctx) string { return pd(LunarUtil.POSITION_CAI[g(c.m.Time)]) }},
	{"GetTimeChongGan", func(c ctx) string { return c.l.GetTimeChongGan() }, func(c ctx) string { return LunarUtil.CHONG_GAN[c.m.Time%10] }},
	{"GetTimeChongGanTie", func(c ctx) string { return c.l.GetTimeChongGanTie() }, func(c ctx) string { return LunarUtil.CHONG_GAN_TIE[c.m.Time%10] }},
	{"GetTimeChong", func(c ctx) string { return c.l.GetTimeChong() }, func(c ctx) string { return LunarUtil.CHONG[c.m.Time%12] }},
	{"GetTimeSha", func(c ctx) string { return c.l.GetTimeSha() }, func(c ctx) string { return LunarUtil.SHA[ref.Zhi[c.m.Time%12]] }},
	{"GetTimeShengXiao", func(c ctx) string { return c.l.GetTimeShengXiao() }, func(c ctx) string { return LunarUtil.SHENG_XIAO[z(c.m.Time)] }},
	{"GetTimeChongDesc", func(c ctx) string { return c.l.GetTimeChongDesc() }, func(c ctx) string { return chongDesc(c.m.Time) }},
	{"GetTimeNaYin", func(c ctx) string { return c.l.GetTimeNaYin() }, func(c ctx) string { return LunarUtil.NAYIN[ref.Pair(c.m.Time)] }},
	{"GetTimeXun", func(c ctx) string { return c.l.GetTimeXun() }, func(c ctx) string { return LunarUtil.GetXun(ref.Pair(c.m.Time)) }},
	{"GetTimeXunKong", func(c ctx) string { return c.l.GetTimeXunKong() }, func(c ctx) string { return LunarUtil.GetXunKong(ref.Pair(c.m.Time)) }},
	// year / month pairs in their variants
	{"GetYearNaYin", func(c ctx) string { return c.l.GetYearNaYin() }, func(c ctx) string { return LunarUtil.NAYIN[ref.Pair(c.m.YearNY)] }},
	{"GetYearXun", func(c ctx) string { return c.l.GetYearXun() }, func(c ctx) string { return LunarUtil.GetXun(ref.Pair(c.m.YearNY)) }},
	{"GetYearXunKong", func(c ctx) string { return c.l.GetYearXunKong() }, func(c ctx) string { return LunarUtil.GetXunKong(ref.Pair(c.m.YearNY)) }},
	{"GetYearXunByLiChun", func(c ctx) string { return c.l.GetYearXunByLiChun() }, func(c ctx) string { return LunarUtil.GetXun(ref.Pair(c.m.YearLC)) }},
	{"GetYearXunKongByLiChun", func(c ctx) string { return c.l.GetYearXunKongByLiChun() }, func(c ctx) string { return LunarUtil.GetXunKong(ref.Pair(c.m.YearLC)) }},
	{"GetYearXunExact", func(c ctx) string { return c.l.GetYearXunExact() }, func(c ctx) string { return LunarUtil.GetXun(ref.Pair(c.m.YearEx)) }},
	{"GetYearXunKongExact", func(c ctx) string { return c.l.GetYearXunKongExact() }, func(c ctx) string { return LunarUtil.GetXunKong(ref.Pair(c.m.YearEx)) }},
	{"GetYearShengXiao", func(c ctx) string { return c.l.GetYearShengXiao() }, func(c ctx) string { return LunarUtil.SHENG_XIAO[z(c.m.YearNY)] }},
	{"GetYearShengXiaoByLiChun", func(c ctx) string { return c.l.GetYearShengXiaoByLiChun() }, func(c ctx) string { return LunarUtil.SHENG_XIAO[z(c.m.YearLC)] }},
	{"GetYearShengXiaoExact", func(c ctx) string { return c.l.GetYearShengXiaoExact() }, func(c ctx) string { return LunarUtil.SHENG_XIAO[z(c.m.YearEx)] }},
	{"GetYearPositionTaiSuiBySect(1)", func(c ctx) string { return c.l.GetYearPositionTaiSuiBySect(1) }, func(c ctx) string { return LunarUtil.POSITION_TAI_SUI_YEAR[c.m.YearNY%12] }},
	{"GetYearPositionTaiSuiBySect(2)", func(c ctx) string { return c.l.GetYearPositionTaiSuiBySect(2) }, func(c ctx) string { return LunarUtil.POSITION_TAI_SUI_YEAR[c.m.YearLC%12] }},
	{"GetYearPositionTaiSuiBySect(3)", func(c ctx) string { return c.l.GetYearPositionTaiSuiBySect(3) }, func(c ctx) string { return LunarUtil.POSITION_TAI_SUI_YEAR[c.m.YearEx%12] }},
	{"GetMonthNaYin", func(c ctx) string { return c.l.GetMonthNaYin() }, func(c ctx) string { return LunarUtil.NAYIN[ref.Pair(c.m.MonthDay)] }},
	{"GetMonthXun", func(c ctx) string { return c.l.GetMonthXun() }, func(c ctx) string { return LunarUtil.GetXun(ref.Pair(c.m.MonthDay)) }},
	{"GetMonthXunKong", func(c ctx) string { return c.l.GetMonthXunKong() }, func(c ctx) string { return LunarUtil.GetXunKong(ref.Pair(c.m.MonthDay)) }},
	{"GetMonthXunExact", func(c ctx) string { return c.l.GetMonthXunExact() }, func(c ctx) string { return LunarUtil.GetXun(ref.Pair(c.m.MonthEx)) }},
	{"GetMonthXunKongExact", func(c ctx) string { return c.l.GetMonthXunKongExact() }, func(c ctx) string { return LunarUtil.GetXunKong(ref.Pair(c.m.MonthEx)) }},
	{"GetMonthShengXiao", func(c ctx) string { return c.l.GetMonthShengXiao() }, func(c ctx) string { return LunarUtil.SHENG_XIAO[z(c.m.MonthDay)] }},
	// suitable / avoid and spirits through the exported decoders fed with the model's pillars
	{"GetDayYiBySect(1)", func(c ctx) string { return join(c.l.GetDayYiBySect(1)) }, func(c ctx) string { return join(LunarUtil.GetDayYi(ref.Pair(c.m.MonthDay), ref.Pair(c.m.Day))) }},
	{"GetDayJiBySect(1)", func(c ctx) string { return join(c.l.GetDayJiBySect(1)) }, func(c ctx) string { return join(LunarUtil.GetDayJi(ref.Pair(c.m.MonthDay), ref.Pair(c.m.Day))) }},
	{"GetDayYiBySect(2)", func(c ctx) string { return join(c.l.GetDayYiBySect(2)) }, func(c ctx) string { return join(LunarUtil.GetDayYi(ref.Pair(c.m.MonthEx), ref.Pair(c.m.Day))) }},
	{"GetDayJiBySect(2)", func(c ctx) string { return join(c.l.GetDayJiBySect(2)) }, func(c ctx) string { return join(LunarUtil.GetDayJi(ref.Pair(c.m.MonthEx), ref.Pair(c.m.Day))) }},
	{"GetDayJiShen", func(c ctx) string { return join(c.l.GetDayJiShen()) }, func(c ctx) string { return join(LunarUtil.GetDayJiShen(abs(c.lm), ref.Pair(c.m.Day))) }},
	{"GetDayXiongSha", func(c ctx) string { return join(c.l.GetDayXiongSha()) }, func(c ctx) string { return join(LunarUtil.GetDayXiongSha(abs(c.lm), ref.Pair(c.m.Day))) }},
	{"GetTimeYi", func(c ctx) string { return join(c.l.GetTimeYi()) }, func(c ctx) string { return join(LunarUtil.GetTimeYi(ref.Pair(c.m.DayEx), ref.Pair(c.m.Time))) }},
	{"GetTimeJi", func(c ctx) string { return join(c.l.GetTimeJi()) }, func(c ctx) string { return join(LunarUtil.GetTimeJi(ref.Pair(c.m.DayEx), ref.Pair(c.m.Time))) }},
	// by lunar month and day
	{"GetLiuYao", func(c ctx) string { return c.l.GetLiuYao() }, func(c ctx) string { return LunarUtil.LIU_YAO[(abs(c.lm)+c.ld-2)%6] }},
	{"GetYueXiang", func(c ctx) string { return c.l.GetYueXiang() }, func(c ctx) string { return LunarUtil.YUE_XIANG[c.ld] }},
	{"GetSeason", func(c ctx) string { return c.l.GetSeason() }, func(c ctx) string { return LunarUtil.SEASON[abs(c.lm)] }},
	// mansion attributes follow the mansion
	{"GetXiuLuck", func(c ctx) string { return c.l.GetXiuLuck() }, func(c ctx) string { return LunarUtil.XIU_LUCK[c.l.GetXiu()] }},
	{"GetXiuSong", func(c ctx) string { return c.l.GetXiuSong() }, func(c ctx) string { return LunarUtil.XIU_SONG[c.l.GetXiu()] }},
	{"GetZheng", func(c ctx) string { return c.l.GetZheng() }, func(c ctx) string { return LunarUtil.ZHENG[c.l.GetXiu()] }},
	{"GetAnimal", func(c ctx) string { return c.l.GetAnimal() }, func(c ctx) string { return LunarUtil.ANIMAL[c.l.GetXiu()] }},
	{"GetGong", func(c ctx) string { return c.l.GetGong() }, func(c ctx) string { return LunarUtil.GONG[c.l.GetXiu()] }},
	{"GetShou", func(c ctx) string { return c.l.GetShou() }, func(c ctx) string { return LunarUtil.SHOU[LunarUtil.GONG[c.l.GetXiu()]] }},
	{"GetDayTianShenType", func(c ctx) string { return c.l.GetDayTianShenType() }, func(c ctx) string { return LunarUtil.TIAN_SHEN_TYPE[c.l.GetDayTianShen()] }},
	{"GetDayTianShenLuck", func(c ctx) string { return c.l.GetDayTianShenLuck() }, func(c ctx) string {
		return LunarUtil.TIAN_SHEN_TYPE_LUCK[LunarUtil.TIAN_SHEN_TYPE[c.l.GetDayTianShen()]]
	}},
	{"GetTimeTianShenType", func(c ctx) string { return c.l.GetTimeTianShenType() }, func(c ctx) string { return LunarUtil.TIAN_SHEN_TYPE[c.l.GetTimeTianShen()] }},
	{"GetTimeTianShenLuck", func(c ctx) string { return c.l.GetTimeTianShenLuck() }, func(c ctx) string {
		return LunarUtil.TIAN_SHEN_TYPE_LUCK[LunarUtil.TIAN_SHEN_TYPE[c.l.GetTimeTianShen()]]
	}},
}

// attributes without a published table per key: pure functions of their declared defining inputs
type fdAttr struct {
	name string
	get  func(c ctx) string
	key  func(c ctx) string
}

var fdAttrs = []fdAttr{
	{"GetZhiXing", func(c ctx) string { return c.l.GetZhiXing() }, func(c ctx) string { return fmt.Sprintf("monthZhi=%d dayZhi=%d", c.m.MonthDay%12, c.m.Day%12) }},
	{"GetDayTianShen", func(c ctx) string { return c.l.GetDayTianShen() }, func(c ctx) string { return fmt.Sprintf("monthZhi=%d dayZhi=%d", c.m.MonthDay%12, c.m.Day%12) }},
	{"GetTimeTianShen", func(c ctx) string { return c.l.GetTimeTianShen() }, func(c ctx) string { return fmt.Sprintf("dayZhiExact=%d timeZhi=%d", c.m.DayEx%12, c.m.Time%12) }},
	{"GetXiu", func(c ctx) string { return c.l.GetXiu() }, func(c ctx) string { return fmt.Sprintf("dayZhi=%d weekday=%d", c.m.Day%12, c.wd) }},
	{"GetDayLu", func(c ctx) string { return c.l.GetDayLu() }, func(c ctx) string { return "day=" + ref.Pair(c.m.Day) }},
	{"GetMonthPositionTai", func(c ctx) string { return c.l.GetMonthPositionTai() }, func(c ctx) string { return fmt.Sprintf("lunarMonth=%d", c.lm) }},
	{"GetMonthPositionTaiSuiBySect(2)", func(c ctx) string { return c.l.GetMonthPositionTaiSuiBySect(2) }, func(c ctx) string { return "month=" + ref.Pair(c.m.MonthDay) }},
	{"GetMonthPositionTaiSuiBySect(3)", func(c ctx) string { return c.l.GetMonthPositionTaiSuiBySect(3) }, func(c ctx) string { return "month=" + ref.Pair(c.m.MonthEx) }},
	{"GetDayPositionTaiSuiBySect(1)", func(c ctx) string { return c.l.GetDayPositionTaiSuiBySect(1) }, func(c ctx) string { return fmt.Sprintf("day=%s yearZhi=%d", ref.Pair(c.m.Day), c.m.YearNY%12) }},
	{"GetDayPositionTaiSuiBySect(2)", func(c ctx) string { return c.l.GetDayPositionTaiSuiBySect(2) }, func(c ctx) string { return fmt.Sprintf("day=%s yearZhi=%d", ref.Pair(c.m.DayEx2), c.m.YearLC%12) }},
	{"GetDayPositionTaiSuiBySect(3)", func(c ctx) string { return c.l.GetDayPositionTaiSuiBySect(3) }, func(c ctx) string { return fmt.Sprintf("day=%s yearZhi=%d", ref.Pair(c.m.Day), c.m.YearEx%12) }},
}

func fdByName(n string) *fdAttr {
	for i := range fdAttrs {
		if fdAttrs[i].name == n {
			return &fdAttrs[i]
		}
	}
	return nil
}

type pairCase struct {
	Attr string
	A, B ref.DT
}

var samePair = ev.Register(&ev.P[pairCase]{
	Name: "same_inputs_same_attribute",
	Rule: "pairs of moments that share the declared defining inputs of an attribute (found by a run-long map attribute -> inputs -> first witness, fed by every observed moment); oracle: the attribute has the same value at both moments (duty god and heavenly spirits by month branch and day branch; hour spirit by exact day branch and hour branch; mansion by day branch and weekday; day-lu by day pair; month Tai position by lunar month; monthly Tai Sui by month pillar; daily Tai Sui by day pillar and year branch of the sect); non-trivial: the two witnesses differ by >= 60 years or one of them is at 23:xx (where a wrong-variant lookup shows); distinct = (attribute, pair)",
	Check: func(c pairCase) error {
		f := fdByName(c.Attr)
		if f == nil {
			return fmt.Errorf("unknown attribute %q", c.Attr)
		}
		a, b := newCtx(c.A), newCtx(c.B)
		if f.key(a) != f.key(b) {
			return nil // not a pair with equal inputs (cannot happen for generated pairs)
		}
		if va, vb := f.get(a), f.get(b); va != vb {
			return fmt.Errorf("%s with defining inputs (%s) is %q at %v but %q at %v", c.Attr, f.key(a), va, c.A, vb, c.B)
		}
		return nil
	},
	Class: func(c pairCase) ([]string, bool) {
		nt := c.A.Y-c.B.Y >= 60 || c.B.Y-c.A.Y >= 60 || c.A.H == 23 || c.B.H == 23
		return []string{"attr:" + c.Attr}, nt
	},
})

var (
	fdMu   sync.Mutex
	fdSeen = map[string]ref.DT{}
	fdVal  = map[string]string{}
	fdCmp  int64
)

type momentCase struct{ T ref.DT }

// canonical order of the 28 mansions
var xiu28 = []string{"角", "亢", "氐", "房", "心", "尾", "箕", "斗", "牛", "女", "虚", "危", "室", "壁", "奎", "娄", "胃", "昴", "毕", "觜", "参", "井", "鬼", "柳", "星", "张", "翼", "轸"}

func xiuIndex(s string) int {
	for i, v := range xiu28 {
		if v == s {
			return i
		}
	}
	return -1
}

var moments = ev.Register(&ev.P[momentCase]{
	Name: "attributes_follow_defining_inputs",
	Rule: "every civil day of the sweep years x slot representatives (all years in thorough) plus generated moments (23:xx, Jie instants, New Year, leap months); oracle: each of ~85 table-driven attributes equals the exported table entry (or exported decoder result) of its defining inputs, the inputs being the INDEPENDENT pillar model's (day/Exact/Exact2 day pillar, hour pillar, month pillar by Jie day or instant, year pillar by New Year / Lichun day / Lichun instant, lunar month and day); attributes without a per-key table feed the run-long functional-dependency map (conflicts are reported as replayable pairs); classical laws: the mansion of the next civil day is the next of the 28 in their fixed order, duty god is 建 <=> day branch = month branch and advances with the day branch, clash branch = branch + 6, clash stem = stem + 4 (mod 10); the fourteen year-almanac counts (几龙治水 …) re-derived from the sexagenary pillar of the independent New Year day; non-trivial: 23:xx, a Jie day, between New Year and Lichun, or a leap month",
	Check: func(c momentCase) error {
		x := newCtx(c.T)
		// ask the exact-month (sect 2) lists first on the very object the table below is checked on
		_ = x.l.GetDayYiBySect(2)
		_ = x.l.GetDayJiBySect(2)
		for _, d := range directs {
			if got, want := d.get(x), d.want(x); got != want {
				return fmt.Errorf("%v (lunar %d/%d/%d; model day %s exact %s hour %s month %s/%s year %s/%s/%s): %s = %q, its defining inputs give %q", c.T, x.l.GetYear(), x.lm, x.ld,
					ref.Pair(x.m.Day), ref.Pair(x.m.DayEx), ref.Pair(x.m.Time), ref.Pair(x.m.MonthDay), ref.Pair(x.m.MonthEx), ref.Pair(x.m.YearNY), ref.Pair(x.m.YearLC), ref.Pair(x.m.YearEx), d.name, got, want)
			}
		}
		// the hour object, the lunar-year object and the lunar-month object: god directions by their own stem, both Fu schools
		lt := x.l.GetTime()
		ly := calendar.NewLunarYear(x.l.GetYear())
		lmo := calendar.NewLunarMonthFromYm(x.l.GetYear(), x.lm)
		type posObj struct {
			name                                    string
			gan                                     int
			xi, yang, yin, fu1, fu2, fuDefault, cai string
			xiD, fuD, caiD                          string
		}
		for _, o := range []posObj{
			{"LunarTime", x.m.Time % 10, lt.GetPositionXi(), lt.GetPositionYangGui(), lt.GetPositionYinGui(), lt.GetPositionFuBySect(1), lt.GetPositionFuBySect(2), lt.GetPositionFu(), lt.GetPositionCai(), lt.GetPositionXiDesc(), lt.GetPositionFuDescBySect(1), lt.GetPositionCaiDesc()},
			{"LunarYear", x.m.YearNY % 10, ly.GetPositionXi(), ly.GetPositionYangGui(), ly.GetPositionYinGui(), ly.GetPositionFuBySect(1), ly.GetPositionFuBySect(2), ly.GetPositionFu(), ly.GetPositionCai(), ly.GetPositionXiDesc(), ly.GetPositionFuDescBySect(1), ly.GetPositionCaiDesc()},
			{"LunarMonth", lmo.GetGanIndex(), lmo.GetPositionXi(), lmo.GetPositionYangGui(), lmo.GetPositionYinGui(), lmo.GetPositionFuBySect(1), lmo.GetPositionFuBySect(2), lmo.GetPositionFu(), lmo.GetPositionCai(), lmo.GetPositionXiDesc(), lmo.GetPositionFuDescBySect(1), lmo.GetPositionCaiDesc()},
		} {
			k := o.gan + 1
			if o.xi != LunarUtil.POSITION_XI[k] || o.yang != LunarUtil.POSITION_YANG_GUI[k] || o.yin != LunarUtil.POSITION_YIN_GUI[k] || o.fu1 != LunarUtil.POSITION_FU[k] ||
				o.fu2 != LunarUtil.POSITION_FU_2[k] || o.fuDefault != o.fu2 || o.cai != LunarUtil.POSITION_CAI[k] || o.xiD != pd(o.xi) || o.fuD != pd(o.fu1) || o.caiD != pd(o.cai) {
				return fmt.Errorf("%v: %s with stem %s reports god directions %+v, the tables give Xi %s YangGui %s YinGui %s Fu %s/%s Cai %s", c.T, o.name, ref.Gan[o.gan], o,
					LunarUtil.POSITION_XI[k], LunarUtil.POSITION_YANG_GUI[k], LunarUtil.POSITION_YIN_GUI[k], LunarUtil.POSITION_FU[k], LunarUtil.POSITION_FU_2[k], LunarUtil.POSITION_CAI[k])
			}
		}
		// the lunar-month object's Tai Sui direction: by the month's place in the four-month cycle from 寅 (艮, the
		// stem's own direction, 坤, 巽), a leap month like its regular month
		{
			mn := x.lm
			if mn < 0 {
				mn = -mn
			}
			want := map[int]string{0: "艮", 2: "坤", 3: "巽"}[(mn-1)%4]
			if (mn-1)%4 == 1 {
				want = LunarUtil.POSITION_GAN[calendar.NewSolarFromJulianDay(lmo.GetFirstJulianDay()).GetLunar().GetMonthGanIndex()]
			}
			if got := lmo.GetPositionTaiSui(); got != want || lmo.GetPositionTaiSuiDesc() != pd(got) {
				return fmt.Errorf("%v: LunarMonth %d/%d Tai Sui direction %q (%q), the four-month cycle gives %q", c.T, x.l.GetYear(), x.lm, got, lmo.GetPositionTaiSuiDesc(), want)
			}
		}
		// the year's almanac counts: "n <animal/stem> …" where n is the day number, within the first lunar month, of the
		// first day carrying that branch (stem); the first day's pillar comes from the sexagenary day count
		if err := yearAlmanac(ly); err != nil {
			return fmt.Errorf("%v: %v", c.T, err)
		}
		// classical laws
		if (x.m.Day%12 == x.m.MonthDay%12) != (x.l.GetZhiXing() == LunarUtil.ZHI_XING[1]) {
			return fmt.Errorf("%v: duty god %q with day branch %s and month branch %s (建 exactly when they coincide)", c.T, x.l.GetZhiXing(), ref.Zhi[x.m.Day%12], ref.Zhi[x.m.MonthDay%12])
		}
		if want := LunarUtil.ZHI_XING[ref.Mod(x.m.Day%12-x.m.MonthDay%12, 12)+1]; x.l.GetZhiXing() != want {
			return fmt.Errorf("%v: duty god %q, (day branch − month branch) steps from 建 give %q", c.T, x.l.GetZhiXing(), want)
		}
		if got, want := x.l.GetDayChong(), ref.Zhi[(x.m.Day%12+6)%12]; got != want {
			return fmt.Errorf("%v: day clash branch %s, six places from %s is %s", c.T, got, ref.Zhi[x.m.Day%12], want)
		}
		if got, want := x.l.GetTimeChong(), ref.Zhi[(x.m.Time%12+6)%12]; got != want {
			return fmt.Errorf("%v: hour clash branch %s, six places from %s is %s", c.T, got, ref.Zhi[x.m.Time%12], want)
		}
		if got, want := x.l.GetDayChongGan(), ref.Gan[(x.m.Day%10+4)%10]; got != want {
			return fmt.Errorf("%v: day clash stem %s, want %s", c.T, got, want)
		}
		// mansions advance one per civil day
		j := ref.JDN(c.T.Y, c.T.M, c.T.D)
		xi := xiuIndex(x.l.GetXiu())
		if xi < 0 {
			return fmt.Errorf("%v: GetXiu = %q is not one of the 28 mansions", c.T, x.l.GetXiu())
		}
		if j < ref.JDNMax {
			n := c.T.AddDays(1)
			nl := gen.Solar(n).GetLunar()
			if ni := xiuIndex(nl.GetXiu()); ni != (xi+1)%28 {
				return fmt.Errorf("%v mansion %s is followed next day by %s (the order is …%s,%s…)", c.T, x.l.GetXiu(), nl.GetXiu(), xiu28[xi], xiu28[(xi+1)%28])
			}
		}
		// the hour list's rat-hour entries have the spirit of their own (exact day branch, hour branch): entry 0 (00:00)
		// that of today's early rat hour, entry 12 (23:00) that of tonight's late rat hour (tomorrow's day branch)
		if (c.T.D+c.T.H)%4 == 0 {
			if ts := x.l.GetTimes(); len(ts) == 13 {
				for _, e := range []struct{ i, h int }{{0, 0}, {12, 23}} {
					want := calendar.NewSolar(c.T.Y, c.T.M, c.T.D, e.h, 30, 0).GetLunar().GetTimeTianShen()
					if got := ts[e.i].GetTianShen(); got != want {
						return fmt.Errorf("%v: GetTimes()[%d].GetTianShen() = %q, but a moment at %02d:30 of the same day (same exact day branch, same hour branch) has hour spirit %q", c.T, e.i, got, e.h, want)
					}
				}
			}
		}
		// functional dependencies
		for i := range fdAttrs {
			f := &fdAttrs[i]
			k := f.name + "|" + f.key(x)
			v := f.get(x)
			fdMu.Lock()
			w, seen := fdSeen[k]
			old := fdVal[k]
			if !seen {
				fdSeen[k], fdVal[k] = c.T, v
			}
			fdCmp++
			sample := fdCmp%997 == 0
			fdMu.Unlock()
			if seen && (old != v || sample) {
				if err := samePair.Eval(pairCase{f.name, w, c.T}); err != nil {
					return err
				}
			}
		}
		return nil
	},
	Class: func(c momentCase) ([]string, bool) {
		x := newCtx(c.T)
		ls := []string{gen.Era(c.T.Y)}
		nt := false
		if c.T.H == 23 {
			ls, nt = append(ls, "hour23"), true
		}
		if x.m.KDay != x.m.KEx {
			ls, nt = append(ls, "jieDayBeforeInstant"), true
		}
		if x.m.YearNY != x.m.YearLC {
			ls, nt = append(ls, "betweenNewYearAndLichun"), true
		}
		if x.lm < 0 {
			ls, nt = append(ls, "leapMonth"), true
		}
		return ls, nt
	},
	Require: []string{"hour23", "jieDayBeforeInstant", "betweenNewYearAndLichun", "leapMonth"},
})

// table laws checked once over the exported tables
type tableCase struct{ K int }

var nayinLaw = ev.Register(&ev.P[tableCase]{
	Name: "nayin_and_xun_table_laws",
	Rule: "the 30 consecutive pairs of the sexagenary cycle; oracle: JIA_ZI[2k] and JIA_ZI[2k+1] share one nayin, the 30 nayin are distinct and each ends in one of the five elements, and xun / empty branches of every pair are those obtained arithmetically (xun = the 甲 pair of the decade, empty branches = the two branches the decade does not reach); distinct = k",
	Check: func(c tableCase) error {
		k := c.K
		a, b := LunarUtil.JIA_ZI[2*k], LunarUtil.JIA_ZI[2*k+1]
		if a != ref.Pair(2*k) || b != ref.Pair(2*k+1) {
			return fmt.Errorf("JIA_ZI[%d..%d] = %s,%s, the cycle gives %s,%s", 2*k, 2*k+1, a, b, ref.Pair(2*k), ref.Pair(2*k+1))
		}
		na, nb := LunarUtil.NAYIN[a], LunarUtil.NAYIN[b]
		if na == "" || na != nb {
			return fmt.Errorf("nayin of %s is %q but of %s is %q", a, na, b, nb)
		}
		if !strings.ContainsAny(string([]rune(na)[len([]rune(na))-1]), "金木水火土") {
			return fmt.Errorf("nayin %q of %s does not end in one of the five elements", na, a)
		}
		for o := 0; o < 30; o++ {
			if o != k && LunarUtil.NAYIN[LunarUtil.JIA_ZI[2*o]] == na {
				return fmt.Errorf("nayin %q is shared by %s and %s", na, a, LunarUtil.JIA_ZI[2*o])
			}
		}
		for _, i := range []int{2 * k, 2*k + 1} {
			p := ref.Pair(i)
			dec := i / 10 * 10
			wantXun := ref.Pair(dec)
			e1, e2 := ref.Zhi[(dec+10)%12], ref.Zhi[(dec+11)%12]
			if LunarUtil.GetXun(p) != wantXun || LunarUtil.GetXunKong(p) != e1+e2 {
				return fmt.Errorf("xun / empty branches of %s are %s / %s, arithmetic gives %s / %s", p, LunarUtil.GetXun(p), LunarUtil.GetXunKong(p), wantXun, e1+e2)
			}
		}
		return nil
	},
	Class:    func(c tableCase) ([]string, bool) { return nil, true },
	Disjoint: true,
})

var cnNum = []string{"〇", "一", "二", "三", "四", "五", "六", "七", "八", "九", "十", "十一", "十二"}

// yearAlmanac re-derives the traditional "几龙治水"-style year statements from the pillar of lunar 1/1.
func yearAlmanac(ly *calendar.LunarYear) error {
	p := ref.DayPillar(gen.NewYearJDN(ly.GetYear()))
	zhiN := func(z int) string { return cnNum[ref.Mod(z-p%12, 12)+1] } // day number of the first day with branch z
	ganN := func(g int) string { return cnNum[ref.Mod(g-p%10, 10)+1] } // day number of the first day with stem g
	for _, a := range []struct{ name, got, want string }{
		{"GetTouLiang", ly.GetTouLiang(), zhiN(0) + "鼠偷粮"},
		{"GetCaoZi", ly.GetCaoZi(), "草子" + zhiN(0) + "分"},
		{"GetGengTian", ly.GetGengTian(), zhiN(1) + "牛耕田"},
		{"GetHuaShou", ly.GetHuaShou(), "花收" + zhiN(3) + "分"},
		{"GetZhiShui", ly.GetZhiShui(), zhiN(4) + "龙治水"},
		{"GetTuoGu", ly.GetTuoGu(), zhiN(6) + "马驮谷"},
		{"GetQiangMi", ly.GetQiangMi(), zhiN(9) + "鸡抢米"},
		{"GetKanCan", ly.GetKanCan(), zhiN(9) + "姑看蚕"},
		{"GetGongZhu", ly.GetGongZhu(), zhiN(11) + "屠共猪"},
		{"GetJiaTian", ly.GetJiaTian(), "甲田" + ganN(0) + "分"},
		{"GetFenBing", ly.GetFenBing(), ganN(2) + "人分饼"},
		{"GetDeJin", ly.GetDeJin(), ganN(7) + "日得金"},
		// two counts: the first by the 寅 day, the second by the 丙 (丁) day — the order the library documents by construction
		{"GetRenBing", ly.GetRenBing(), zhiN(2) + "人" + ganN(2) + "丙"},
		{"GetRenChu", ly.GetRenChu(), zhiN(2) + "人" + ganN(3) + "锄"},
	} {
		if a.got != a.want {
			return fmt.Errorf("lunar year %d (1/1 is a %s day): %s = %q, counting from the first day gives %q", ly.GetYear(), ref.Pair(p), a.name, a.got, a.want)
		}
	}
	return nil
}

func TestC18(t *testing.T) {
	ev.Assume("defining inputs per attribute as declared in the statement; pillars from the independent model (R-gz, R-civil, civil-year term table); exported tables/decoders give the value per key")
	for k := 0; k < 30; k++ {
		if ev.Mine(k) {
			nayinLaw.Eval(tableCase{k})
		}
	}
	nayinLaw.Exhaustive("the 30 nayin pairs / 60 xun entries")
	years := gen.HotYears()
	if ev.Thorough() {
		years = nil
		for y := 1; y <= 9998; y++ {
			years = append(years, y)
		}
		moments.Exhaustive("every civil day 0001-01-01..9998-12-31 x {rotating slot, 23:30}")
	}
	slots := []int{0, 1, 3, 5, 7, 9, 11, 13, 15, 17, 19, 21, 23}
	for _, y := range years {
		if !ev.Mine(y) || (!ev.Thorough() && y > 30 && y%6 != 0 && y != 1582) {
			continue
		}
		for j := ref.JDN(y, 1, 1); j <= ref.JDN(y, 12, 31); j++ {
			yy, mm, dd := ref.FromJDN(j)
			moments.Eval(momentCase{ref.DT{Y: yy, M: mm, D: dd, H: slots[j%13], Mi: 30}})
			if j%3 == 0 {
				moments.Eval(momentCase{ref.DT{Y: yy, M: mm, D: dd, H: 23, Mi: 30}})
			}
		}
	}
	// a dense window of days asked again in scrambled order (same oracle, different predecessor: a memo keyed on too
	// little answers the previous question)
	{
		start := ref.JDN(2019, 1, 1) + ev.Shard*230
		for _, perm := range ev.Shuffled(460, ev.Pick(2, 6), 18) {
			for _, k := range perm {
				yy, mm, dd := ref.FromJDN(start + k)
				moments.Eval(momentCase{ref.DT{Y: yy, M: mm, D: dd, H: []int{9, 23, 0, 15}[k%4], Mi: 30}})
			}
		}
	}
	moments.Rapid(ev.Share(ev.Pick(16000, 320000)), func(t *rapid.T) momentCase {
		m := gen.Moment(t)
		switch rapid.IntRange(0, 4).Draw(t, "bias") {
		case 0:
			m.H = 23
		case 1: // leap months
			y := gen.Year(t, 1, 9997)
			ly := calendar.NewLunarYear(y)
			if lp := ly.GetLeapMonth(); lp != 0 {
				lm := ly.GetMonth(-lp)
				j := int(lm.GetFirstJulianDay()+0.5) + rapid.IntRange(0, lm.GetDayCount()-1).Draw(t, "d")
				if j >= ref.JDNMin && j <= ref.JDNMax {
					yy, mm, dd := ref.FromJDN(j)
					m.Y, m.M, m.D = yy, mm, dd
				}
			}
		}
		return momentCase{m}
	})
	ev.Note("shard %d: %d functional-dependency comparisons over %d distinct (attribute, inputs) keys", ev.Shard, fdCmp, len(fdSeen))
}
