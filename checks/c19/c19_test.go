//go:build verif

// C19 — printed forms are canonical, parse back, and sort in chronological order.
package c19

import (
	"fmt"
	"regexp"
	"strconv"
	"strings"
	"sync"
	"testing"

	"github.com/6tail/lunar-go/LunarUtil"
	"github.com/6tail/lunar-go/calendar"
	"pgregory.net/rapid"
	"verif/internal/ev"
	"verif/internal/gen"
	"verif/internal/ref"
)

func TestMain(m *testing.M) { ev.Main(m, "C19") }

var reYmd = regexp.MustCompile(`^(\d{4})-(\d{2})-(\d{2})$`)
var reYmdHms = regexp.MustCompile(`^(\d{4})-(\d{2})-(\d{2}) (\d{2}):(\d{2}):(\d{2})$`)

type pairCase struct{ A, B ref.DT }

func atoi(s string) int { n, _ := strconv.Atoi(s); return n }

func civilForms(t ref.DT) (ymd, hms string, err error) {
	s := calendar.NewSolar(t.Y, t.M, t.D, t.H, t.Mi, t.S)
	ymd, hms = s.ToYmd(), s.ToYmdHms()
	if s.String() != ymd {
		return "", "", fmt.Errorf("%v: String()=%q differs from ToYmd()=%q", t, s.String(), ymd)
	}
	m := reYmd.FindStringSubmatch(ymd)
	if m == nil {
		return "", "", fmt.Errorf("%v: ToYmd()=%q is not YYYY-MM-DD", t, ymd)
	}
	if atoi(m[1]) != t.Y || atoi(m[2]) != t.M || atoi(m[3]) != t.D {
		return "", "", fmt.Errorf("%v: ToYmd()=%q parses back to %s-%s-%s", t, ymd, m[1], m[2], m[3])
	}
	h := reYmdHms.FindStringSubmatch(hms)
	if h == nil {
		return "", "", fmt.Errorf("%v: ToYmdHms()=%q is not YYYY-MM-DD HH:MM:SS", t, hms)
	}
	if atoi(h[1]) != t.Y || atoi(h[2]) != t.M || atoi(h[3]) != t.D || atoi(h[4]) != t.H || atoi(h[5]) != t.Mi || atoi(h[6]) != t.S {
		return "", "", fmt.Errorf("%v: ToYmdHms()=%q parses back to other fields", t, hms)
	}
	if !strings.HasPrefix(hms, ymd+" ") {
		return "", "", fmt.Errorf("%v: ToYmdHms()=%q does not start with ToYmd()=%q", t, hms, ymd)
	}
	// the same instant reached by stepping from an object that has already been printed prints the same
	for _, k := range []int{1, -1, 3} {
		if t.H-k < 0 || t.H-k > 23 {
			continue
		}
		src := calendar.NewSolar(t.Y, t.M, t.D, t.H-k, t.Mi, t.S)
		_, _ = src.ToYmdHms(), src.ToYmd()
		if r := src.NextHour(k); r.ToYmdHms() != hms || r.ToYmd() != ymd || r.String() != ymd {
			return "", "", fmt.Errorf("%v reached by NextHour(%d) from a printed %s prints %q / %q, built directly it prints %q", t, k, src.ToYmdHms(), r.ToYmdHms(), r.ToYmd(), hms)
		}
	}
	return ymd, hms, nil
}

func abs(x int) int {
	if x < 0 {
		return -x
	}
	return x
}

func sign(x int64) int {
	switch {
	case x < 0:
		return -1
	case x > 0:
		return 1
	}
	return 0
}

var civil = ev.Register(&ev.P[pairCase]{
	Name: "civil_timestamps_canonical_and_ordered",
	Rule: "pairs of civil date-times over years 1..9999 — independent, equal, adjacent (t and t+1 s / +1 min / +1 h / +1 day) and rollover pairs (second 59->0, day/month/year ends, years 9/10, 99/100, 999/1000, 1582-10-04/15); oracle: ToYmd/String match ^\\d{4}-\\d{2}-\\d{2}$, ToYmdHms matches ^\\d{4}-\\d{2}-\\d{2} \\d{2}:\\d{2}:\\d{2}$, both parse back to the fields, and for the pair string order == R-civil instant order (day order for the short form) with equality <=> equality; non-trivial: a year < 1000, the pair differs only in one field by one unit, or straddles a decimal-width change of the year",
	Check: func(c pairCase) error {
		ya, ha, err := civilForms(c.A)
		if err != nil {
			return err
		}
		yb, hb, err := civilForms(c.B)
		if err != nil {
			return err
		}
		if got, want := strings.Compare(ha, hb), sign(c.A.Sec()-c.B.Sec()); got != want {
			return fmt.Errorf("%q vs %q: string order %d, chronological order %d", ha, hb, got, want)
		}
		da, db := int64(ref.JDN(c.A.Y, c.A.M, c.A.D)), int64(ref.JDN(c.B.Y, c.B.M, c.B.D))
		if got, want := strings.Compare(ya, yb), sign(da-db); got != want {
			return fmt.Errorf("%q vs %q: string order %d, day order %d", ya, yb, got, want)
		}
		return nil
	},
	Class: func(c pairCase) ([]string, bool) {
		var ls []string
		nt := false
		if c.A.Y < 1000 || c.B.Y < 1000 {
			ls, nt = append(ls, "yearBelow1000"), true
		}
		if c.A.Y < 10 || c.B.Y < 10 {
			ls = append(ls, "yearBelow10")
		}
		d := c.A.Sec() - c.B.Sec()
		if d == 1 || d == -1 || d == 60 || d == -60 || d == 3600 || d == -3600 || d == 86400 || d == -86400 {
			ls, nt = append(ls, "adjacent"), true
		}
		if d == 0 {
			ls = append(ls, "equal")
		}
		if len(strconv.Itoa(c.A.Y)) != len(strconv.Itoa(c.B.Y)) {
			ls, nt = append(ls, "yearWidthChange"), true
		}
		if c.A.Y == 9999 || c.B.Y == 9999 {
			ls = append(ls, "year9999")
		}
		return ls, nt
	},
	Require: []string{"yearBelow1000", "yearBelow10", "adjacent", "equal", "yearWidthChange", "year9999"},
})

// ------------------------------------------------------------------------------------------
// Chinese renderings

type dayCase struct{ J int }

var (
	mu         sync.Mutex
	leapMarker = ""
	seen       = map[string]string{} // rendering kind + text -> date key
)

func digitOf(r string) int {
	for i := 0; i <= 9; i++ {
		if LunarUtil.NUMBER[i] == r {
			return i
		}
	}
	return -1
}

// decodeYear reads a digit-by-digit Chinese year.
func decodeYear(s string) (int, error) {
	n := 0
	rs := []rune(s)
	if len(rs) == 0 {
		return 0, fmt.Errorf("empty year")
	}
	for _, r := range rs {
		d := digitOf(string(r))
		if d < 0 {
			return 0, fmt.Errorf("%q is not one of the ten digit names", string(r))
		}
		n = n*10 + d
	}
	return n, nil
}

func indexIn(tab []string, s string) int {
	idx := -1
	for i := 1; i < len(tab); i++ {
		if tab[i] == s {
			if idx >= 0 {
				return -2 // ambiguous table
			}
			idx = i
		}
	}
	return idx
}

// parse decodes "<year>年<[leap]month>月<day>" through the exported tables.
func parse(s string) (y, m, d int, err error) {
	i := strings.Index(s, "年")
	if i < 0 {
		return 0, 0, 0, fmt.Errorf("no 年 in %q", s)
	}
	y, err = decodeYear(s[:i])
	if err != nil {
		return 0, 0, 0, fmt.Errorf("%q: %v", s, err)
	}
	rest := s[i+len("年"):]
	k := strings.Index(rest, "月")
	if k < 0 {
		return 0, 0, 0, fmt.Errorf("no 月 in %q", s)
	}
	mp, dp := rest[:k], rest[k+len("月"):]
	d = indexIn(LunarUtil.DAY, dp)
	if d < 1 {
		return 0, 0, 0, fmt.Errorf("%q: day part %q is not exactly one of the day names", s, dp)
	}
	if m = indexIn(LunarUtil.MONTH, mp); m >= 1 {
		return y, m, d, nil
	}
	// leap: a constant non-empty marker followed by a month name
	for mi := 1; mi < len(LunarUtil.MONTH); mi++ {
		if strings.HasSuffix(mp, LunarUtil.MONTH[mi]) && len(mp) > len(LunarUtil.MONTH[mi]) {
			marker := mp[:len(mp)-len(LunarUtil.MONTH[mi])]
			if indexIn(LunarUtil.MONTH, marker) >= 1 {
				continue
			}
			mu.Lock()
			if leapMarker == "" {
				leapMarker = marker
			}
			ok := leapMarker == marker
			mu.Unlock()
			if !ok {
				return 0, 0, 0, fmt.Errorf("%q: leap marker %q differs from the one seen before %q", s, marker, leapMarker)
			}
			return y, -mi, d, nil
		}
	}
	return 0, 0, 0, fmt.Errorf("%q: month part %q is neither a month name nor marker+month name", s, mp)
}

func unique(kind, text, key string) error {
	mu.Lock()
	defer mu.Unlock()
	if old, ok := seen[kind+"|"+text]; ok && old != key {
		return fmt.Errorf("%s %q is printed for two different dates: %s and %s", kind, text, old, key)
	}
	seen[kind+"|"+text] = key
	return nil
}

var chinese = ev.Register(&ev.P[dayCase]{
	Name: "chinese_renderings_parse_back",
	Rule: "every lunar/Taoist/Buddhist date reachable from the civil days of the sweep years (all years in thorough) plus generated days (leap months, days 10/20/30, months 11/12, years < 1000); oracle: Lunar.String / Tao.ToString / Foto.ToString decode — year digit-by-digit through the (checked injective) NUMBER[0..9], then [constant leap marker] + exactly one MONTH name + 月 + exactly one DAY name — to the object's own year, month (sign = leap) and day; GetYearInChinese/GetMonthInChinese/GetDayInChinese compose to String; LunarMonth.String and LunarYear.String parse back to year, month, leap flag and length; distinct dates never print alike (run-wide set per rendering); wording is never hard-coded, so a legitimate renaming cannot raise an alarm; non-trivial: year < 1000, leap month, day 10/20/30, month 11/12",
	Check: func(c dayCase) error {
		y, mo, d := ref.FromJDN(c.J)
		l := calendar.NewSolar(y, mo, d, (c.J*5)%24, (c.J*7)%60, (c.J*11)%60).GetLunar()
		ly, lm, ld := l.GetYear(), l.GetMonth(), l.GetDay()
		key := fmt.Sprintf("%d/%d/%d", ly, lm, ld)
		civil := fmt.Sprintf("civil %04d-%02d-%02d", y, mo, d)
		s := l.String()
		if again := l.String(); again != s {
			return fmt.Errorf("lunar %s: String() gives %q then %q", key, s, again)
		}
		if s != l.GetYearInChinese()+"年"+l.GetMonthInChinese()+"月"+l.GetDayInChinese() {
			return fmt.Errorf("lunar %s: String()=%q is not year+年+month+月+day of the component getters", key, s)
		}
		py, pm, pd, err := parse(s)
		if err != nil {
			return fmt.Errorf("lunar %s: %v", key, err)
		}
		if py != ly || pm != lm || pd != ld {
			return fmt.Errorf("lunar %s prints %q which parses back to %d/%d/%d", key, s, py, pm, pd)
		}
		if err := unique("Lunar.String", s, civil); err != nil {
			return err
		}
		// other dates are rendered in between: the month twelve-minus-k of the neighbouring year for month k (where a
		// leap month, written with a negative number, is the usual source of mixed-up keys), the same day a month
		// and a year away
		var relatives []*calendar.Lunar
		for _, r := range [][3]int{{ly - 1, 12 - abs(lm), ld}, {ly + 1, -(12 - abs(lm)), ld}, {ly, -lm, ld}, {ly + 1, lm, ld}, {ly, abs(lm)%12 + 1, ld}} {
			func() {
				defer func() { _ = recover() }() // the relative need not exist
				if r[0] < 1 || r[0] > 9998 || r[1] == 0 {
					return
				}
				x := calendar.NewLunar(r[0], r[1], r[2], 0, 0, 0)
				relatives = append(relatives, x)
				_ = x.String()
			}()
		}
		if again := l.String(); again != s {
			return fmt.Errorf("lunar %s: String() gives %q, and %q after other dates were printed", key, s, again)
		}
		tao, foto := l.GetTao(), l.GetFoto()
		taoText, fotoText := tao.ToString(), foto.ToString()
		for _, x := range relatives { // each rendering of a relative is directly followed by the date's own, per calendar
			_ = x.GetTao().ToString()
			if again := tao.ToString(); again != taoText {
				return fmt.Errorf("Tao date of lunar %s prints %q, and %q right after the Tao date of lunar %d/%d/%d was printed", key, taoText, again, x.GetYear(), x.GetMonth(), x.GetDay())
			}
			_ = x.GetFoto().ToString()
			if again := foto.ToString(); again != fotoText {
				return fmt.Errorf("Foto date of lunar %s prints %q, and %q right after the Foto date of lunar %d/%d/%d was printed", key, fotoText, again, x.GetYear(), x.GetMonth(), x.GetDay())
			}
		}
		for _, x := range []struct {
			kind string
			text string
			year int
			alt  []string
		}{{"Tao", taoText, tao.GetYear(), []string{tao.String()}}, {"Foto", fotoText, foto.GetYear(), []string{foto.String()}}} {
			qy, qm, qd, err := parse(x.text)
			if err != nil {
				return fmt.Errorf("%s date of lunar %s: %v", x.kind, key, err)
			}
			if qy != x.year || qm != lm || qd != ld {
				return fmt.Errorf("%s date %d/%d/%d prints %q which parses back to %d/%d/%d", x.kind, x.year, lm, ld, x.text, qy, qm, qd)
			}
			for _, a := range x.alt {
				if a != x.text {
					return fmt.Errorf("%s: String()=%q differs from ToString()=%q", x.kind, a, x.text)
				}
			}
			if err := unique(x.kind+".ToString", x.text, civil); err != nil {
				return err
			}
		}
		// the long renderings: the lunar date's and the Buddhist date's begin with the short one; the Taoist one
		// names the same year, month and day through the component getters (no wording of mine involved)
		if full := l.ToFullString(); !strings.HasPrefix(full, s) {
			return fmt.Errorf("lunar %s: ToFullString()=%q does not begin with String()=%q", key, full, s)
		}
		if full := foto.ToFullString(); !strings.HasPrefix(full, fotoText) {
			return fmt.Errorf("Foto date of lunar %s: ToFullString()=%q does not begin with ToString()=%q", key, full, fotoText)
		}
		if full := tao.ToFullString(); !strings.Contains(full, tao.GetYearInChinese()) || !strings.Contains(full, tao.GetMonthInChinese()) || !strings.Contains(full, tao.GetDayInChinese()) ||
			strings.Index(full, tao.GetMonthInChinese()+"月"+tao.GetDayInChinese()) < 0 && strings.Index(full, tao.GetMonthInChinese()) > strings.LastIndex(full, tao.GetDayInChinese()) {
			return fmt.Errorf("Tao date of lunar %s: ToFullString()=%q does not name year %q, month %q and day %q of the same object", key, full, tao.GetYearInChinese(), tao.GetMonthInChinese(), tao.GetDayInChinese())
		}
		// lunar month / year objects
		lmo := calendar.NewLunarMonthFromYm(ly, lm)
		ms := lmo.String()
		if again := lmo.String(); again != ms || lmo.GetMonth() != lm {
			return fmt.Errorf("LunarMonth %d/%d: String() gives %q then %q (month number now %d)", ly, lm, ms, again, lmo.GetMonth())
		}
		i := strings.Index(ms, "年")
		j := strings.Index(ms, "月(")
		k := strings.Index(ms, ")天")
		if i < 0 || j < i || k < j {
			return fmt.Errorf("LunarMonth %d/%d prints %q (not <year>年<month>月(<n>)天)", ly, lm, ms)
		}
		if yy, err := strconv.Atoi(ms[:i]); err != nil || yy != ly {
			return fmt.Errorf("LunarMonth %d/%d prints %q: year part", ly, lm, ms)
		}
		if n, err := strconv.Atoi(ms[j+len("月(") : k]); err != nil || n != lmo.GetDayCount() {
			return fmt.Errorf("LunarMonth %d/%d prints %q: day count part", ly, lm, ms)
		}
		_, qm, _, err := parse("〇年" + ms[i+len("年"):j] + "月" + LunarUtil.DAY[1])
		if err != nil || qm != lm {
			return fmt.Errorf("LunarMonth %d/%d prints %q whose month part parses to %d (%v)", ly, lm, ms, qm, err)
		}
		if err := unique("LunarMonth.String", ms, fmt.Sprintf("%d/%d", ly, lm)); err != nil {
			return err
		}
		if ys := calendar.NewLunarYear(ly).String(); ys != strconv.Itoa(ly) {
			return fmt.Errorf("LunarYear %d prints %q", ly, ys)
		}
		return nil
	},
	Class: func(c dayCase) ([]string, bool) {
		y, mo, d := ref.FromJDN(c.J)
		l := calendar.NewSolarFromYmd(y, mo, d).GetLunar()
		ls := []string{gen.Era(y)}
		nt := false
		if l.GetYear() < 1000 {
			ls, nt = append(ls, "yearBelow1000"), true
		}
		if l.GetMonth() < 0 {
			ls, nt = append(ls, "leapMonth"), true
		}
		if l.GetDay()%10 == 0 {
			ls, nt = append(ls, "day10-20-30"), true
		}
		if m := l.GetMonth(); m == 11 || m == 12 || m == -11 || m == -12 {
			ls, nt = append(ls, "month11-12"), true
		}
		return ls, nt
	},
	Require: []string{"yearBelow1000", "leapMonth", "day10-20-30", "month11-12"},
})

func tablesInjective() error {
	for i := 0; i <= 9; i++ {
		for j := i + 1; j <= 9; j++ {
			if LunarUtil.NUMBER[i] == LunarUtil.NUMBER[j] {
				return fmt.Errorf("NUMBER[%d] == NUMBER[%d]", i, j)
			}
		}
		if len([]rune(LunarUtil.NUMBER[i])) != 1 {
			return fmt.Errorf("NUMBER[%d]=%q is not a single character", i, LunarUtil.NUMBER[i])
		}
	}
	for _, tab := range [][]string{LunarUtil.MONTH, LunarUtil.DAY} {
		for i := 1; i < len(tab); i++ {
			if tab[i] == "" || indexIn(tab, tab[i]) != i {
				return fmt.Errorf("name table entry %d (%q) is empty or duplicated", i, tab[i])
			}
		}
	}
	return nil
}

func TestC19(t *testing.T) {
	ev.Assume("exported NUMBER / MONTH / DAY tables define the Chinese wording; 年 and 月 separators as printed by the library")
	if err := tablesInjective(); err != nil {
		// the rendering tables themselves are ambiguous: report through the property
		chinese.Eval(dayCase{ref.JDN(2000, 1, 1)})
		ev.Infra("name tables not injective: %v", err)
	}
	// deterministic rollover pairs
	if ev.Shard == 0 {
		roll := [][2]ref.DT{
			{{Y: 9, M: 12, D: 31, H: 23, Mi: 59, S: 59}, {Y: 10, M: 1, D: 1}}, {{Y: 99, M: 12, D: 31, H: 23, Mi: 59, S: 59}, {Y: 100, M: 1, D: 1}},
			{{Y: 999, M: 12, D: 31, H: 23, Mi: 59, S: 59}, {Y: 1000, M: 1, D: 1}}, {{Y: 9998, M: 12, D: 31, H: 23, Mi: 59, S: 59}, {Y: 9999, M: 1, D: 1}},
			{{Y: 1582, M: 10, D: 4, H: 23, Mi: 59, S: 59}, {Y: 1582, M: 10, D: 15}}, {{Y: 1, M: 1, D: 1}, {Y: 1, M: 1, D: 1, S: 1}},
			{{Y: 2000, M: 9, D: 30, H: 9, Mi: 59, S: 59}, {Y: 2000, M: 10, D: 1, H: 10}}, {{Y: 5, M: 9, D: 9, H: 9, Mi: 9, S: 9}, {Y: 5, M: 10, D: 10, H: 10, Mi: 10, S: 10}},
			{{Y: 9999, M: 12, D: 31, H: 23, Mi: 59, S: 59}, {Y: 9999, M: 12, D: 31, H: 23, Mi: 59, S: 58}},
		}
		for _, p := range roll {
			civil.Eval(pairCase{p[0], p[1]})
			civil.Eval(pairCase{p[1], p[0]})
			civil.Eval(pairCase{p[0], p[0]})
		}
		for y := 1; y <= 12; y++ {
			for yy := 1; yy <= 12; yy++ {
				civil.Eval(pairCase{ref.DT{Y: y, M: 12, D: 31}, ref.DT{Y: yy, M: 1, D: 1}})
			}
		}
	}
	civil.Rapid(ev.Share(ev.Pick(40000, 800000)), func(t *rapid.T) pairCase {
		a := gen.MomentIn(t, 1, 9998)
		switch rapid.IntRange(0, 9).Draw(t, "yearBias") {
		case 0:
			a.Y = rapid.IntRange(1, 12).Draw(t, "tiny")
		case 1:
			a.Y = rapid.SampledFrom([]int{99, 100, 999, 1000, 9999}).Draw(t, "width")
		}
		if !ref.ValidDate(a.Y, a.M, a.D) {
			a.D = 1
		}
		var b ref.DT
		switch rapid.IntRange(0, 3).Draw(t, "pair") {
		case 0:
			b = a
		case 1:
			b = ref.FromSec(a.Sec() + rapid.SampledFrom([]int64{1, -1, 60, -60, 3600, -3600, 86400, -86400}).Draw(t, "delta"))
			if b.Y < 1 || b.Y > 9999 {
				b = a
			}
		case 2: // one year apart across a width change
			b = a
			b.Y = rapid.SampledFrom([]int{9, 10, 99, 100, 999, 1000}).Draw(t, "wy")
			if !ref.ValidDate(b.Y, b.M, b.D) {
				b.D = 1
			}
		default:
			b = gen.MomentIn(t, 1, 9998)
		}
		return pairCase{a, b}
	})
	years := gen.HotYears()
	if ev.Thorough() {
		years = nil
		for y := 1; y <= 9998; y++ {
			years = append(years, y)
		}
		chinese.Exhaustive("every civil day 0001-01-01..9998-12-31 (every lunar, Taoist and Buddhist date reachable from them)")
	}
	for _, y := range years {
		if !ev.Mine(y) || (!ev.Thorough() && y > 30 && y%5 != 0 && y != 1582) {
			continue
		}
		for j := ref.JDN(y, 1, 1); j <= ref.JDN(y, 12, 31); j++ {
			chinese.Eval(dayCase{j})
		}
	}
	// a dense window of days asked again in scrambled order (same oracle, different predecessor: a memo keyed on too
	// little answers the previous question)
	{
		start := ref.JDN(2019, 1, 1) + ev.Shard*230
		for _, perm := range ev.Shuffled(460, ev.Pick(2, 8), 19) {
			for _, k := range perm {
				chinese.Eval(dayCase{start + k})
			}
		}
	}
	chinese.Rapid(ev.Share(ev.Pick(16000, 160000)), func(t *rapid.T) dayCase {
		y := gen.Year(t, 1, 9997)
		if rapid.IntRange(0, 2).Draw(t, "leap") == 0 {
			ly := calendar.NewLunarYear(y)
			if lp := ly.GetLeapMonth(); lp != 0 {
				lm := ly.GetMonth(-lp)
				d := rapid.SampledFrom([]int{1, 10, 11, 20, 21, 29}).Draw(t, "d")
				j := int(lm.GetFirstJulianDay()+0.5) + d - 1
				if j >= ref.JDNMin && j <= ref.JDNMax {
					return dayCase{j}
				}
			}
		}
		return dayCase{gen.DayIn(t, y)}
	})
}
