//go:build verif

// C20 — zodiac signs and weekday-based civil festivals follow their date rules.
package c20

import (
	"container/list"
	"fmt"
	"strconv"
	"strings"
	"testing"

	"github.com/6tail/lunar-go/SolarUtil"
	"github.com/6tail/lunar-go/calendar"
	"pgregory.net/rapid"
	"verif/internal/ev"
	"verif/internal/gen"
	"verif/internal/ref"
)

func TestMain(m *testing.M) { ev.Main(m, "C20") }

type dayCase struct{ J int }

// conventional first day (month, day) of each sign, in the order of SolarUtil.XINGZUO (白羊 first)
var signStart = [12][2]int{{3, 21}, {4, 20}, {5, 21}, {6, 22}, {7, 23}, {8, 23}, {9, 23}, {10, 24}, {11, 23}, {12, 22}, {1, 20}, {2, 19}}

func signOf(m, d int) int {
	best, bestKey := -1, -1
	key := m*100 + d
	for i, s := range signStart {
		k := s[0]*100 + s[1]
		if k <= key && k > bestKey {
			best, bestKey = i, k
		}
	}
	if best < 0 { // before Jan 20: still the sign that started on Dec 22
		best = 9
	}
	return best
}

func strs(l *list.List) []string {
	var out []string
	for e := l.Front(); e != nil; e = e.Next() {
		out = append(out, e.Value.(string))
	}
	return out
}

var zodiacFest = ev.Register(&ev.P[dayCase]{
	Name: "zodiac_and_festivals",
	Rule: "every civil day of the sweep years (every year 1..9998 in thorough) and generated days; oracle: the sign is the one whose conventional first day (3-21, 4-20, 5-21, 6-22, 7-23, 8-23, 9-23, 10-24, 11-23, 12-22, 1-20, 2-19) is the latest on or before the month-day — so exactly one sign per day, twelve contiguous runs in order, independent of the year; deprecated alias equal; festivals re-derived from the exported maps' keys: 'm-d' fixed dates, 'm-k-w' reported <=> the day is the k-th occurrence of weekday w among the existing days of month m, 'm-0-w' <=> no later day of the month has weekday w; the reported list equals the derived list exactly (nothing else, nothing twice), also on the object reached by NextYear(1) from the previous year's week row; other-festival list equals the map entry; non-trivial: first/last day of a sign, Feb 29, a day that is the 7k-th or (7k-6)-th of its month, the last 7 days of a month, or 1582-10",
	Check: func(c dayCase) error {
		y, m, d := ref.FromJDN(c.J)
		// sign and festivals are facts of the civil day: the clock time rotates with the day number
		hh, mi, sec := (c.J*5)%24, (c.J*7)%60, (c.J*11)%60
		if c.J%4 == 0 {
			hh, mi, sec = 0, 0, 0
		}
		// the same month-day is asked first in a year far outside the range (the civil side accepts any year): 2^16,
		// 2^15, 2^32 years away — what it leaves behind must not reach the year asked next
		func() {
			defer func() { _ = recover() }()
			far := calendar.NewSolar(y+[]int{65536, 32768, 131072, 1 << 32, 65536 * 3}[ref.Mod(c.J, 5)], m, d, 0, 0, 0)
			_, _, _ = far.GetFestivals(), far.GetOtherFestivals(), far.GetXingZuo()
		}()
		s := calendar.NewSolar(y, m, d, hh, mi, sec)
		day := s.ToYmdHms()
		want := SolarUtil.XINGZUO[signOf(m, d)]
		if s.GetXingZuo() != want || s.GetXingzuo() != want {
			return fmt.Errorf("%s: GetXingZuo=%s GetXingzuo=%s, the sign starting on or before %d-%d is %s", day, s.GetXingZuo(), s.GetXingzuo(), m, d, want)
		}
		// festivals
		wd := ref.Weekday(c.J)
		occ := 0 // which occurrence of this weekday in the month today is
		last := true
		for dd := 1; dd <= 31; dd++ {
			if !ref.ValidDate(y, m, dd) || ref.Weekday(ref.JDN(y, m, dd)) != wd {
				continue
			}
			if dd <= d {
				occ++
			} else {
				last = false
			}
		}
		var wantF []string
		if f, ok := SolarUtil.FESTIVAL[fmt.Sprintf("%d-%d", m, d)]; ok {
			wantF = append(wantF, f)
		}
		var kth, lst []string
		for k, f := range SolarUtil.WEEK_FESTIVAL {
			p := strings.Split(k, "-")
			if len(p) != 3 {
				return fmt.Errorf("unreadable WEEK_FESTIVAL key %q", k)
			}
			km, _ := strconv.Atoi(p[0])
			kk, _ := strconv.Atoi(p[1])
			kw, _ := strconv.Atoi(p[2])
			if km != m || kw != wd {
				continue
			}
			if kk == 0 && last {
				lst = append(lst, f)
			} else if kk > 0 && kk == occ {
				kth = append(kth, f)
			}
		}
		wantF = append(append(wantF, kth...), lst...)
		gotF := strs(s.GetFestivals())
		if strings.Join(gotF, "|") != strings.Join(wantF, "|") {
			return fmt.Errorf("%s (weekday %d, occurrence %d, last=%v): festivals %v, rules give %v", day, wd, occ, last, gotF, wantF)
		}
		// the same civil day reached from a week row of the previous year (and from last month's row) by NextYear /
		// NextMonth: the festivals are those of the day reached, not of the day it was stepped from
		if y >= 3 && (y-1 != 1582 || m != 10) && ref.ValidDate(y-1, m, d) {
			for e := calendar.NewSolarWeekFromYmd(y-1, m, d, c.J%7).GetDays().Front(); e != nil; e = e.Next() {
				if x := e.Value.(*calendar.Solar); x.GetMonth() == m && x.GetDay() == d {
					_ = x.GetWeek()
					if r := x.NextYear(1); r.GetYear() == y && r.GetMonth() == m && r.GetDay() == d {
						if got := strs(r.GetFestivals()); strings.Join(got, "|") != strings.Join(wantF, "|") || r.GetWeek() != wd || r.GetXingZuo() != want {
							return fmt.Errorf("%s reached by NextYear(1) from the week row of %d: festivals %v weekday %d sign %s, rules give %v / %d / %s", day, y-1, got, r.GetWeek(), r.GetXingZuo(), wantF, wd, want)
						}
					}
				}
			}
		}
		gotO := strs(s.GetOtherFestivals())
		if strings.Join(gotO, "|") != strings.Join(SolarUtil.OTHER_FESTIVAL[fmt.Sprintf("%d-%d", m, d)], "|") {
			return fmt.Errorf("%s: other festivals %v, table gives %v", day, gotO, SolarUtil.OTHER_FESTIVAL[fmt.Sprintf("%d-%d", m, d)])
		}
		return nil
	},
	Class: func(c dayCase) ([]string, bool) {
		y, m, d := ref.FromJDN(c.J)
		ls := []string{gen.Era(y)}
		nt := false
		for _, s := range signStart {
			if s[0] == m && (s[1] == d || s[1] == d+1) {
				ls, nt = append(ls, "signBoundary"), true
			}
		}
		if m == 2 && d == 29 {
			ls, nt = append(ls, "feb29"), true
		}
		o := ref.OrdinalInMonth(y, m, d)
		if o%7 == 0 || o%7 == 1 {
			ls, nt = append(ls, "weekOrdinalEdge"), true
		}
		if d+7 > ref.LastDayNumber(y, m) {
			ls, nt = append(ls, "last7Days"), true
		}
		if y == 1582 && m == 10 {
			ls, nt = append(ls, "oct1582"), true
		}
		return ls, nt
	},
	Disjoint: false,
	Require:  []string{"signBoundary", "feb29", "weekOrdinalEdge", "last7Days", "oct1582"},
})

// each weekday festival exactly once per year
type yearCase struct{ Y int }

var oncePerYear = ev.Register(&ev.P[yearCase]{
	Name: "weekday_festival_once_per_year",
	Rule: "every sweep year; oracle: each weekday-based festival name of WEEK_FESTIVAL and each fixed-date festival of FESTIVAL is reported on exactly one day of the year (October 1582 included), and the twelve signs each cover one contiguous run of days within the year (Capricorn wrapping over New Year) in the canonical order; distinct = year",
	Check: func(c yearCase) error {
		cnt := map[string]int{}
		var runs []string
		for j := ref.JDN(c.Y, 1, 1); j <= ref.JDN(c.Y, 12, 31); j++ {
			y, m, d := ref.FromJDN(j)
			s := calendar.NewSolar(y, m, d, (j*5)%24, (j*3)%60, 0)
			for _, f := range strs(s.GetFestivals()) {
				cnt[f]++
			}
			x := s.GetXingZuo()
			if len(runs) == 0 || runs[len(runs)-1] != x {
				runs = append(runs, x)
			}
		}
		for _, f := range SolarUtil.WEEK_FESTIVAL {
			if cnt[f] != 1 {
				return fmt.Errorf("year %d: %s reported on %d days", c.Y, f, cnt[f])
			}
		}
		for k, f := range SolarUtil.FESTIVAL {
			if cnt[f] != 1 && !(c.Y == 1582 && strings.HasPrefix(k, "10-") && false) {
				return fmt.Errorf("year %d: %s (%s) reported on %d days", c.Y, f, k, cnt[f])
			}
		}
		want := []string{"摩羯", "水瓶", "双鱼", "白羊", "金牛", "双子", "巨蟹", "狮子", "处女", "天秤", "天蝎", "射手", "摩羯"}
		if strings.Join(runs, ",") != strings.Join(want, ",") {
			return fmt.Errorf("year %d: sign runs %v, want %v", c.Y, runs, want)
		}
		return nil
	},
	Class:    func(c yearCase) ([]string, bool) { return []string{gen.Era(c.Y)}, true },
	Disjoint: true,
})

func TestC20(t *testing.T) {
	ev.Assume("conventional first days of the twelve signs as listed in the statement's source table; festival rule language m-d / m-k-w / m-0-w read from the exported map keys")
	years := gen.HotYears()
	if ev.Thorough() {
		years = nil
		for y := 1; y <= 9998; y++ {
			years = append(years, y)
		}
		zodiacFest.Exhaustive("every civil day 0001-01-01..9998-12-31")
		oncePerYear.Exhaustive("every year 1..9998")
	}
	for _, y := range years {
		if !ev.Mine(y) {
			continue
		}
		oncePerYear.Eval(yearCase{y})
		if !ev.Thorough() && y > 30 && y%3 != 0 && y != 1582 {
			continue
		}
		for j := ref.JDN(y, 1, 1); j <= ref.JDN(y, 12, 31); j++ {
			zodiacFest.Eval(dayCase{j})
		}
	}
	// a dense window of days asked again in scrambled order (same oracle, different predecessor: a memo keyed on too
	// little answers the previous question)
	{
		start := ref.JDN(2018, 1, 1) + ev.Shard*230
		for _, perm := range ev.Shuffled(460, ev.Pick(2, 8), 20) {
			for _, k := range perm {
				zodiacFest.Eval(dayCase{start + k})
			}
		}
	}
	zodiacFest.Rapid(ev.Share(ev.Pick(24000, 240000)), func(t *rapid.T) dayCase {
		y := gen.Year(t, 1, 9998)
		switch rapid.IntRange(0, 3).Draw(t, "kind") {
		case 0: // sign boundary days
			s := signStart[rapid.IntRange(0, 11).Draw(t, "sign")]
			j := ref.JDN(y, s[0], s[1]) - rapid.IntRange(0, 1).Draw(t, "before")
			return dayCase{j}
		case 1: // months with weekday festivals
			m := rapid.SampledFrom([]int{3, 5, 6, 9, 10, 11}).Draw(t, "m")
			d := rapid.IntRange(1, ref.LastDayNumber(y, m)).Draw(t, "d")
			if !ref.ValidDate(y, m, d) {
				d = 20
			}
			return dayCase{ref.JDN(y, m, d)}
		default:
			return dayCase{gen.DayIn(t, y)}
		}
	})
}
