module verif

go 1.23

require (
	github.com/6tail/lunar-go v0.0.0
	pgregory.net/rapid v1.3.0
)

replace github.com/6tail/lunar-go => /repo
