// Package dig renders a library object into a canonical string map by reflection: every exported
// method that takes no arguments is called (panics are rendered, not propagated) and its result is
// rendered recursively to a bounded depth. Two objects are "observably identical" iff their digests
// are equal. New accessors are covered the day they are added.
package dig

import (
	"container/list"
	"fmt"
	"reflect"
	"sort"
	"strings"
)

// Call is one reflective accessor call.
type Call struct {
	Path   string // e.g. Lunar.GetEightChar().GetYun... (type.method chain)
	Type   string // receiver type name
	Method string
	Value  reflect.Value // first result (invalid if panicked or no result)
	Panic  string        // non-empty if the call panicked
}

// Visitor is called for every accessor call made while digesting.
type Visitor func(c Call)

var listType = reflect.TypeOf((*list.List)(nil))

// Skip lists methods never called (none is needed for purity; kept for methods with side effects).
var Skip = map[string]bool{}

// Of returns the digest of obj to the given depth (depth 0: only obj's own accessors, returned
// library objects rendered by their String()).
func Of(obj interface{}, depth int) map[string]string {
	out := map[string]string{}
	walk(reflect.ValueOf(obj), typeName(reflect.TypeOf(obj)), depth, out, nil)
	return out
}

// Reverse makes walk call the accessors in reverse (descending name) order: objects whose accessors
// are read-only must give the same digest in either order.
var Reverse = false

// Visit digests obj and reports every accessor call to v.
func Visit(obj interface{}, depth int, v Visitor) map[string]string {
	out := map[string]string{}
	walk(reflect.ValueOf(obj), typeName(reflect.TypeOf(obj)), depth, out, v)
	return out
}

func typeName(t reflect.Type) string {
	for t.Kind() == reflect.Ptr {
		t = t.Elem()
	}
	return t.Name()
}

func isLibObject(t reflect.Type) bool {
	if t.Kind() != reflect.Ptr || t.Elem().Kind() != reflect.Struct {
		return false
	}
	return strings.Contains(t.Elem().PkgPath(), "lunar-go")
}

func safeCall(m reflect.Value) (res []reflect.Value, pmsg string) {
	defer func() {
		if r := recover(); r != nil {
			pmsg = fmt.Sprint(r)
			if pmsg == "" {
				pmsg = "panic"
			}
		}
	}()
	return m.Call(nil), ""
}

func walk(v reflect.Value, path string, depth int, out map[string]string, vis Visitor) {
	if !v.IsValid() || (v.Kind() == reflect.Ptr && v.IsNil()) {
		out[path] = "<nil>"
		return
	}
	t := v.Type()
	tn := typeName(t)
	for k := 0; k < t.NumMethod(); k++ {
		i := k
		if Reverse {
			i = t.NumMethod() - 1 - k
		}
		m := t.Method(i)
		if m.Type.NumIn() != 1 || m.Type.NumOut() == 0 { // receiver only
			continue
		}
		if Skip[tn+"."+m.Name] {
			continue
		}
		p := path + "." + m.Name + "()"
		res, pmsg := safeCall(v.Method(i))
		if pmsg != "" {
			out[p] = "PANIC:" + pmsg
			if vis != nil {
				vis(Call{Path: p, Type: tn, Method: m.Name, Panic: pmsg})
			}
			continue
		}
		r := res[0]
		if vis != nil {
			vis(Call{Path: p, Type: tn, Method: m.Name, Value: r})
		}
		out[p] = render(r, p, depth, out, vis)
	}
}

// render returns the canonical rendering of a value; library objects are recursed into (their
// accessor results are added to out under the extended path) while depth lasts.
func render(r reflect.Value, path string, depth int, out map[string]string, vis Visitor) string {
	if !r.IsValid() {
		return "<invalid>"
	}
	t := r.Type()
	switch {
	case t == listType:
		if r.IsNil() {
			return "<nil list>"
		}
		l := r.Interface().(*list.List)
		var parts []string
		k := 0
		for e := l.Front(); e != nil; e = e.Next() {
			parts = append(parts, render(reflect.ValueOf(e.Value), fmt.Sprintf("%s[%d]", path, k), depth, out, vis))
			k++
		}
		return "[" + strings.Join(parts, ",") + "]"
	case isLibObject(t):
		if r.IsNil() {
			return "<nil>"
		}
		s := brief(r)
		if depth > 0 {
			walk(r, path, depth-1, out, vis)
		}
		return s
	}
	switch r.Kind() {
	case reflect.Slice, reflect.Array:
		if r.Kind() == reflect.Slice && r.IsNil() {
			return "[]"
		}
		var parts []string
		for k := 0; k < r.Len(); k++ {
			parts = append(parts, render(r.Index(k), fmt.Sprintf("%s[%d]", path, k), depth, out, vis))
		}
		return "[" + strings.Join(parts, ",") + "]"
	case reflect.Map:
		keys := r.MapKeys()
		ks := make([]string, len(keys))
		m := map[string]reflect.Value{}
		for i, k := range keys {
			ks[i] = fmt.Sprint(k.Interface())
			m[ks[i]] = r.MapIndex(k)
		}
		sort.Strings(ks)
		var parts []string
		for _, k := range ks {
			parts = append(parts, k+":"+render(m[k], path+"{"+k+"}", 0, out, vis)) // map values are never recursed
		}
		return "{" + strings.Join(parts, ",") + "}"
	case reflect.Interface:
		if r.IsNil() {
			return "<nil>"
		}
		return render(r.Elem(), path, depth, out, vis)
	case reflect.Ptr:
		if r.IsNil() {
			return "<nil>"
		}
		return render(r.Elem(), path, depth, out, vis)
	case reflect.Float64, reflect.Float32:
		return fmt.Sprintf("%.9f", r.Float())
	}
	return fmt.Sprint(r.Interface())
}

// Render renders one value without recursing into library objects.
func Render(r reflect.Value, path string, out map[string]string) string { return render(r, path, 0, out, nil) }

// brief renders a library object without recursion: type name + its most specific printed form.
func brief(r reflect.Value) string {
	tn := typeName(r.Type())
	for _, name := range []string{"ToYmdHms", "String", "ToString", "GetName"} {
		m := r.MethodByName(name)
		if m.IsValid() && m.Type().NumIn() == 0 && m.Type().NumOut() == 1 && m.Type().Out(0).Kind() == reflect.String {
			res, pmsg := safeCall(m)
			if pmsg != "" {
				return tn + "{PANIC:" + pmsg + "}"
			}
			return tn + "{" + res[0].String() + "}"
		}
	}
	return tn + "{}"
}

// Diff returns up to max differing keys between two digests ("" if equal).
func Diff(a, b map[string]string, max int) string {
	var ks []string
	for k := range a {
		if b[k] != a[k] {
			ks = append(ks, k)
		}
	}
	for k := range b {
		if _, ok := a[k]; !ok {
			ks = append(ks, k)
		}
	}
	if len(ks) == 0 {
		return ""
	}
	sort.Strings(ks)
	var sb strings.Builder
	for i, k := range ks {
		if i >= max {
			fmt.Fprintf(&sb, " ... (%d differing keys)", len(ks))
			break
		}
		fmt.Fprintf(&sb, "%s: %q vs %q; ", k, trunc(a[k]), trunc(b[k]))
	}
	return sb.String()
}

func trunc(s string) string {
	if len(s) > 160 {
		return s[:160] + "…"
	}
	return s
}
