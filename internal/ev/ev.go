// Package ev is the shared harness of all checks: it evaluates a property function on a case,
// recovers panics, classifies the case, counts distinct non-trivial cases, keeps samples, matches
// failures against KNOWN_FINDINGS.txt and writes a per-process "part" file that run.py merges into
// /verif/evidence/<id>.json. The same property function is driven by rapid (Rapid), by exhaustive
// sweeps (Eval in a loop) and by replay (VERIF_REPLAY), so the oracle is written once.
package ev

import (
	"bufio"
	"encoding/binary"
	"encoding/json"
	"flag"
	"fmt"
	"hash/fnv"
	"os"
	"path/filepath"
	"runtime/debug"
	"sort"
	"strconv"
	"strings"
	"sync"
	"testing"
	"time"
	_ "time/tzdata"

	"pgregory.net/rapid"
)

// ---------------------------------------------------------------------------------------------
// environment

var (
	PropertyID string
	Tier       = "quick"
	Seed       = uint64(1)
	Shard      = 0
	NShards    = 1
	outDir     = ""
	knownOpen  = map[string]string{} // sig -> description (open findings of this property)
	start      = time.Now()
	mu         sync.Mutex
	subs       = map[string]*sub{}
	order      []string
	registry   = map[string]func(json.RawMessage) error{}
	notes      []string
	assumes    []string
)

func envInt(k string, d int) int {
	if v := os.Getenv(k); v != "" {
		if n, err := strconv.Atoi(v); err == nil {
			return n
		}
	}
	return d
}

// Thorough reports whether the thorough tier is selected.
func Thorough() bool { return Tier == "thorough" }

// Pick returns q in the quick tier and t in the thorough tier.
func Pick(q, t int) int {
	if Thorough() {
		return t
	}
	return q
}

// Mine reports whether item i of a partitioned domain belongs to this shard.
func Mine(i int) bool {
	if i < 0 {
		i = -i
	}
	return i%NShards == Shard
}

// Share splits n cases over the shards (at least 1 each).
func Share(n int) int {
	k := n / NShards
	if k < 1 {
		k = 1
	}
	return k
}

// Shuffled returns k permutations of 0..n-1, a pure function of the run's seed, the shard and salt (splitmix64 +
// Fisher-Yates). Checks use it to re-evaluate a dense window of already swept inputs in scrambled order: the oracle is
// the same, only the order of the questions is new (a memo keyed on too little answers the neighbour's question).
func Shuffled(n, k int, salt uint64) [][]int {
	x := Seed*0x9E3779B97F4A7C15 + uint64(Shard)*0xBF58476D1CE4E5B9 + salt
	next := func() uint64 {
		x += 0x9E3779B97F4A7C15
		z := x
		z = (z ^ (z >> 30)) * 0xBF58476D1CE4E5B9
		z = (z ^ (z >> 27)) * 0x94D049BB133111EB
		return z ^ (z >> 31)
	}
	out := make([][]int, k)
	for i := range out {
		p := make([]int, n)
		for j := range p {
			p[j] = j
		}
		for j := n - 1; j > 0; j-- {
			r := int(next() % uint64(j+1))
			p[j], p[r] = p[r], p[j]
		}
		out[i] = p
	}
	return out
}

// Zones are the process time zones the shards run under.
var Zones = []string{"UTC", "Asia/Shanghai", "America/New_York", "Australia/Lord_Howe", "Europe/London", "America/Sao_Paulo"}

// Zone is the zone in force.
var Zone = "UTC"

// SetZone makes Zones[i mod n] the process's local zone (time.Local); an unknown zone leaves UTC in force.
func SetZone(i int) {
	name := Zones[((i%len(Zones))+len(Zones))%len(Zones)]
	if loc, err := time.LoadLocation(name); err == nil {
		time.Local = loc
		Zone = name
	}
}

// Main is called from TestMain of every check package.
func Main(m *testing.M, id string) {
	PropertyID = id
	if v := os.Getenv("VERIF_TIER"); v == "thorough" {
		Tier = "thorough"
	}
	if v := os.Getenv("VERIF_SEED"); v != "" {
		if n, err := strconv.ParseInt(v, 10, 64); err == nil {
			Seed = uint64(n)
		}
	}
	Shard = envInt("VERIF_SHARD", 0)
	NShards = envInt("VERIF_NSHARDS", 1)
	outDir = os.Getenv("VERIF_OUT")
	loadKnown(os.Getenv("VERIF_KNOWN"))
	flag.Parse()
	_ = flag.Set("rapid.nofailfile", "true")
	// the process's local time zone is an input nobody passes explicitly: the shards run under different zones
	// (with and without daylight saving, a half-hour one); a result may not depend on it
	SetZone(Shard)
	if rp := os.Getenv("VERIF_REPLAY"); rp != "" {
		os.Exit(replay(rp))
	}
	code := m.Run()
	flush(code)
	// violations are reported through the part file; the process exit code only signals
	// infrastructure trouble (test binary panicked, t.Fatal outside the harness).
	os.Exit(code)
}

func loadKnown(path string) {
	if path == "" {
		return
	}
	f, err := os.Open(path)
	if err != nil {
		return
	}
	defer f.Close()
	sc := bufio.NewScanner(f)
	for sc.Scan() {
		line := strings.TrimSpace(sc.Text())
		if !strings.HasPrefix(line, "open:") {
			continue
		}
		fs := strings.Fields(line[len("open:"):])
		var prop, sig string
		var rest []string
		for _, w := range fs {
			switch {
			case strings.HasPrefix(w, "property=") && prop == "":
				prop = w[len("property="):]
			case strings.HasPrefix(w, "sig=") && sig == "":
				sig = w[len("sig="):]
			default:
				rest = append(rest, w)
			}
		}
		if prop == PropertyID && sig != "" {
			knownOpen[sig] = strings.Join(rest, " ")
		}
	}
}

// Note adds a free-text line to the evidence (coverage.notes).
func Note(format string, a ...interface{}) {
	mu.Lock()
	notes = append(notes, fmt.Sprintf(format, a...))
	mu.Unlock()
}

// Assume records an assumption / trusted base item for the evidence file.
func Assume(s string) {
	mu.Lock()
	for _, x := range assumes {
		if x == s {
			mu.Unlock()
			return
		}
	}
	assumes = append(assumes, s)
	mu.Unlock()
}

// ---------------------------------------------------------------------------------------------
// sub-properties

type violation struct {
	Prop  string          `json:"prop"`
	Case  json.RawMessage `json:"case"`
	Error string          `json:"error"`
	Via   string          `json:"via"`
}

type sub struct {
	Name       string            `json:"name"`
	Evals      int64             `json:"evaluations"`
	NTCount    int64             `json:"distinct_nontrivial"`
	Classes    map[string]int64  `json:"classes"`
	Required   []string          `json:"required_classes,omitempty"`
	Samples    []json.RawMessage `json:"samples"`
	Known      map[string]int64  `json:"known_excluded,omitempty"`
	KnownDesc  map[string]string `json:"known_desc,omitempty"`
	Violations []violation       `json:"violations,omitempty"`
	NViol      int64             `json:"n_violations"`
	Exhaustive string            `json:"exhaustive_domain,omitempty"`
	Disjoint   bool              `json:"disjoint"`
	Rule       string            `json:"rule"`
	nt         map[uint64]struct{}
	ntSampled  int
}

// P is one executable sub-property over cases of type C.
type P[C any] struct {
	// Name identifies the sub-property inside its property (also the replay key).
	Name string
	// Rule states, in words, generator + oracle + what makes a case non-trivial.
	Rule string
	// Check is the oracle: nil if the property holds on c.
	Check func(c C) error
	// Class returns class labels for the histogram and whether the case is non-trivial.
	Class func(c C) (labels []string, nontrivial bool)
	// Known maps a failing case to the signature of a known-finding class ("" = none). The
	// signature must depend on the input / call site only.
	Known func(c C, err error) string
	// Require lists class labels that must have been generated at least once (else exit 2).
	Require []string
	// Disjoint: cases of different shards never coincide (sweeps) so counts may be summed.
	Disjoint bool
	s        *sub
}

// Register makes the sub-property known to the evidence writer and the replay dispatcher.
func Register[C any](p *P[C]) *P[C] {
	mu.Lock()
	defer mu.Unlock()
	if _, dup := subs[p.Name]; dup {
		panic("duplicate sub-property " + p.Name)
	}
	p.s = &sub{Name: p.Name, Classes: map[string]int64{}, Known: map[string]int64{}, KnownDesc: map[string]string{},
		nt: map[uint64]struct{}{}, Required: p.Require, Disjoint: p.Disjoint, Rule: p.Rule}
	subs[p.Name] = p.s
	order = append(order, p.Name)
	registry[p.Name] = func(raw json.RawMessage) error {
		var c C
		if err := json.Unmarshal(raw, &c); err != nil {
			return fmt.Errorf("replay: cannot decode case: %v", err)
		}
		return p.call(c)
	}
	return p
}

// Exhaustive declares that this run enumerates the named finite domain completely for p.
func (p *P[C]) Exhaustive(domain string) {
	mu.Lock()
	p.s.Exhaustive = domain
	mu.Unlock()
}

func (p *P[C]) call(c C) (err error) {
	defer func() {
		if r := recover(); r != nil {
			st := string(debug.Stack())
			// keep the frames below the panic only, short
			lines := strings.Split(st, "\n")
			var keep []string
			for _, l := range lines {
				if strings.Contains(l, "lunar-go") || strings.Contains(l, "/repo/") {
					keep = append(keep, strings.TrimSpace(l))
					if len(keep) >= 4 {
						break
					}
				}
			}
			err = fmt.Errorf("PANIC: %v [%s]", r, strings.Join(keep, " | "))
		}
	}()
	return p.Check(c)
}

func hashOf(b []byte) uint64 {
	h := fnv.New64a()
	h.Write(b)
	return h.Sum64()
}

const maxSamples = 6
const maxViolations = 8

// Eval runs the oracle on one case, records statistics, and returns a non-nil error only for a
// violation that no open known finding covers.
func (p *P[C]) Eval(c C) error { return p.eval(c, "sweep") }

// Failed reports whether an unlisted violation has been recorded for p.
func (p *P[C]) Failed() bool {
	mu.Lock()
	defer mu.Unlock()
	return p.s.NViol > 0
}

func (p *P[C]) eval(c C, via string) error {
	err := p.call(c)
	if err != nil && Zone != "UTC" {
		err = fmt.Errorf("%v [process time zone %s]", err, Zone)
	}
	var labels []string
	ntv := false
	if p.Class != nil {
		labels, ntv = p.Class(c)
	}
	mu.Lock()
	defer mu.Unlock()
	s := p.s
	s.Evals++
	for _, l := range labels {
		s.Classes[l]++
	}
	var raw []byte
	if ntv {
		raw, _ = json.Marshal(c)
		h := hashOf(raw)
		if _, seen := s.nt[h]; !seen {
			s.nt[h] = struct{}{}
			s.NTCount++
			if s.ntSampled < maxSamples-2 && (s.NTCount&(s.NTCount-1)) == 0 { // 1st, 2nd, 4th, 8th ... distinct
				s.Samples = append(s.Samples, raw)
				s.ntSampled++
			}
		}
	} else if len(s.Samples)-s.ntSampled < 2 && s.Evals%7 == 1 {
		raw, _ = json.Marshal(c)
		s.Samples = append(s.Samples, raw)
	}
	if err == nil {
		return nil
	}
	if p.Known != nil {
		if sig := p.Known(c, err); sig != "" {
			if desc, open := knownOpen[sig]; open {
				s.Known[sig]++
				s.KnownDesc[sig] = desc
				return nil
			}
		}
	}
	s.NViol++
	if raw == nil {
		raw, _ = json.Marshal(c)
	}
	if via == "sweep" && len(s.Violations) < maxViolations {
		s.Violations = append(s.Violations, violation{Prop: p.Name, Case: raw, Error: err.Error(), Via: via})
	}
	return err
}

// FuzzCheck is called from native fuzz targets: it runs the same oracle as Eval without touching the
// statistics (fuzz workers are separate processes) and fails the target with a line run.py can turn
// into a standard replay file.
func FuzzCheck[C any](t *testing.T, p *P[C], c C) {
	err := p.call(c)
	if err == nil {
		return
	}
	if p.Known != nil {
		if sig := p.Known(c, err); sig != "" {
			if _, open := knownOpen[sig]; open {
				return
			}
		}
	}
	raw, _ := json.Marshal(c)
	t.Fatalf("VERIF-FUZZ-FAIL prop=%s case=%s err=%v", p.Name, string(raw), err)
}

// ---------------------------------------------------------------------------------------------
// rapid driver

type quietTB struct {
	name   string
	failed bool
	logs   []string
}

func (q *quietTB) Helper()      {}
func (q *quietTB) Name() string { return q.name }
func (q *quietTB) Logf(f string, a ...any) {
	if len(q.logs) < 50 {
		q.logs = append(q.logs, fmt.Sprintf(f, a...))
	}
}
func (q *quietTB) Log(a ...any)              { q.Logf("%s", fmt.Sprint(a...)) }
func (q *quietTB) Skipf(f string, a ...any)  {}
func (q *quietTB) Skip(a ...any)             {}
func (q *quietTB) SkipNow()                  {}
func (q *quietTB) Errorf(f string, a ...any) { q.failed = true; q.Logf(f, a...) }
func (q *quietTB) Error(a ...any)            { q.failed = true; q.Log(a...) }
func (q *quietTB) Fatalf(f string, a ...any) { q.failed = true; q.Logf(f, a...) }
func (q *quietTB) Fatal(a ...any)            { q.failed = true; q.Log(a...) }
func (q *quietTB) FailNow()                  { q.failed = true }
func (q *quietTB) Fail()                     { q.failed = true }
func (q *quietTB) Failed() bool              { return q.failed }

var propIndex = uint64(0)

// RapidSeed derives the rapid PRNG value (never 0) from VERIF_SEED, a per-call index and the shard.
func RapidSeed(idx uint64) uint64 {
	return 1 + (Seed*1000003+idx*7919+uint64(Shard)*104729)%(1<<31-2)
}

// Rapid drives p with rapid: n cases drawn by gen (n is this process's share), shrinking on
// failure; the minimal failing case is recorded as the violation.
func (p *P[C]) Rapid(n int, gen func(t *rapid.T) C) {
	propIndex++
	_ = flag.Set("rapid.checks", strconv.Itoa(n))
	_ = flag.Set("rapid.seed", strconv.FormatUint(RapidSeed(propIndex), 10))
	_ = flag.Set("rapid.shrinktime", "20s")
	var last *C
	var lastErr error
	tb := &quietTB{name: PropertyID + "/" + p.Name}
	rapid.Check(tb, func(t *rapid.T) {
		c := gen(t)
		if err := p.eval(c, "rapid"); err != nil {
			cc := c
			last, lastErr = &cc, err
			t.Fatalf("%v", err)
		}
	})
	if last != nil {
		raw, _ := json.Marshal(*last)
		mu.Lock()
		if len(p.s.Violations) < maxViolations {
			p.s.Violations = append(p.s.Violations, violation{Prop: p.Name, Case: raw, Error: lastErr.Error(), Via: "rapid(shrunk)"})
		}
		mu.Unlock()
	} else if tb.failed {
		// rapid itself complained (e.g. could not generate enough valid cases): infrastructure.
		mu.Lock()
		notes = append(notes, "INFRA rapid: "+strings.Join(tb.logs, " / "))
		infra = true
		mu.Unlock()
	}
}

// RapidRaw drives an arbitrary rapid property (state machines) under the same seed policy. The
// property must report failures through fail (which records the case) and then t.Fatalf.
func RapidRaw(name string, n int, prop func(t *rapid.T)) (failed bool, logs []string) {
	propIndex++
	_ = flag.Set("rapid.checks", strconv.Itoa(n))
	_ = flag.Set("rapid.seed", strconv.FormatUint(RapidSeed(propIndex), 10))
	_ = flag.Set("rapid.shrinktime", "20s")
	tb := &quietTB{name: PropertyID + "/" + name}
	rapid.Check(tb, prop)
	return tb.failed, tb.logs
}

var infra = false

// Infra marks the run as inconclusive for infrastructure reasons (exit 2 in run.py).
func Infra(format string, a ...interface{}) {
	mu.Lock()
	notes = append(notes, "INFRA "+fmt.Sprintf(format, a...))
	infra = true
	mu.Unlock()
}

// ---------------------------------------------------------------------------------------------
// part file

type part struct {
	Property string   `json:"property_id"`
	Tier     string   `json:"tier"`
	Seed     uint64   `json:"seed"`
	Shard    int      `json:"shard"`
	NShards  int      `json:"nshards"`
	WallS    float64  `json:"wall_s"`
	ExitCode int      `json:"go_test_exit"`
	Infra    bool     `json:"infra"`
	Subs     []*sub   `json:"subs"`
	Notes    []string `json:"notes,omitempty"`
	Assume   []string `json:"assumptions,omitempty"`
}

func flush(code int) {
	if outDir == "" {
		return
	}
	mu.Lock()
	defer mu.Unlock()
	_ = os.MkdirAll(outDir, 0o755)
	pt := part{Property: PropertyID, Tier: Tier, Seed: Seed, Shard: Shard, NShards: NShards,
		WallS: time.Since(start).Seconds(), ExitCode: code, Infra: infra, Notes: notes, Assume: assumes}
	for _, n := range order {
		s := subs[n]
		pt.Subs = append(pt.Subs, s)
		if !s.Disjoint && len(s.nt) > 0 {
			// export hashes so that run.py can take the union over shards
			hs := make([]uint64, 0, len(s.nt))
			for h := range s.nt {
				hs = append(hs, h)
			}
			sort.Slice(hs, func(i, j int) bool { return hs[i] < hs[j] })
			buf := make([]byte, 8*len(hs))
			for i, h := range hs {
				binary.LittleEndian.PutUint64(buf[8*i:], h)
			}
			_ = os.WriteFile(filepath.Join(outDir, fmt.Sprintf("nt.%s.%d.bin", s.Name, Shard)), buf, 0o644)
		}
	}
	b, _ := json.MarshalIndent(pt, "", " ")
	_ = os.WriteFile(filepath.Join(outDir, fmt.Sprintf("part.%d.json", Shard)), b, 0o644)
}

// ---------------------------------------------------------------------------------------------
// replay

type replayFile struct {
	Property string          `json:"property_id"`
	Prop     string          `json:"prop"`
	Case     json.RawMessage `json:"case"`
	Error    string          `json:"error,omitempty"`
}

func replay(path string) int {
	b, err := os.ReadFile(path)
	if err != nil {
		fmt.Println("replay: ", err)
		return 2
	}
	var rf replayFile
	if err := json.Unmarshal(b, &rf); err != nil {
		fmt.Println("replay: bad file:", err)
		return 2
	}
	f, ok := registry[rf.Prop]
	if !ok {
		fmt.Printf("replay: unknown sub-property %q in %s\n", rf.Prop, PropertyID)
		return 2
	}
	for z := range Zones { // a replay does not know the shard the case came from: every zone is tried
		SetZone(z)
		if err := f(rf.Case); err != nil {
			fmt.Printf("REPLAY-FAIL property=%s prop=%s zone=%s case=%s\n  %v\n", PropertyID, rf.Prop, Zones[z], string(rf.Case), err)
			return 1
		}
	}
	fmt.Printf("REPLAY-PASS property=%s prop=%s\n", PropertyID, rf.Prop)
	return 0
}
