// Package gen holds the rapid generators shared by the checks. Every random choice is a rapid
// draw; inputs are valid by construction (no filtering). Boundary inputs (term instants, lunar
// New Year, month ends, the 1582 gap) are constructed from the library's own tables, which is
// sound for generation: a wrong table only makes the generator less sharp, never the oracle wrong.
package gen

import (
	"sort"
	"sync"

	"github.com/6tail/lunar-go/calendar"
	"pgregory.net/rapid"
	"verif/internal/ref"
)

// leap-override years exported by the library (used only to aim the generator).
func overrideYears() []int {
	var ys []int
	for _, y := range calendar.LEAP_11 {
		ys = append(ys, y)
	}
	for _, y := range calendar.LEAP_12 {
		ys = append(ys, y)
	}
	return ys
}

// HotYears are the deterministic quick-tier sweep years: era seams and range ends.
func HotYears() []int {
	var ys []int
	add := func(a, b int) {
		for y := a; y <= b; y++ {
			ys = append(ys, y)
		}
	}
	add(1, 30)
	add(230, 245)
	add(1575, 1605)
	add(1640, 1650)
	add(1895, 2105)
	add(9990, 9998)
	// the century years that are leap years in the Julian calendar only (the standard library's proleptic Gregorian
	// calendar has no 29 February there), and the year of the earliest and latest solstice-related extremes
	for _, y := range []int{100, 200, 300, 500, 600, 700, 900, 1000, 1100, 1300, 1400, 1500} {
		ys = append(ys, y)
	}
	return ys
}

// Year draws a year in [lo,hi] (within 1..9998) from the design's mixture.
func Year(t *rapid.T, lo, hi int) int {
	clamp := func(y int) int {
		if y < lo {
			return lo
		}
		if y > hi {
			return hi
		}
		return y
	}
	k := rapid.IntRange(0, 99).Draw(t, "yearClass")
	switch {
	case k < 25:
		return rapid.IntRange(lo, hi).Draw(t, "year")
	case k < 40:
		return clamp(rapid.IntRange(1, 300).Draw(t, "year"))
	case k < 50:
		return clamp(rapid.IntRange(1500, 1700).Draw(t, "year"))
	case k < 70:
		return clamp(rapid.IntRange(1880, 2120).Draw(t, "year"))
	case k < 80:
		return clamp(rapid.SampledFrom([]int{1, 2, 3, 9990, 9991, 9992, 9993, 9994, 9995, 9996, 9997, 9998}).Draw(t, "year"))
	case k < 90:
		ov := overrideYears()
		y := rapid.SampledFrom(ov).Draw(t, "ovYear") + rapid.IntRange(-1, 1).Draw(t, "ovDelta")
		return clamp(y)
	default:
		return clamp(rapid.IntRange(2400, 3100).Draw(t, "year"))
	}
}

// Era names the regime a year belongs to (histogram label).
func Era(y int) string {
	switch {
	case y <= 300:
		return "era:1-300"
	case y < 1582:
		return "era:301-1581"
	case y == 1582:
		return "era:1582"
	case y < 1645:
		return "era:1583-1644"
	case y < 1929:
		return "era:1645-1928"
	case y < 1960:
		return "era:1929-1959"
	case y <= 2100:
		return "era:1960-2100"
	case y <= 3000:
		return "era:2101-3000"
	default:
		return "era:3001-9998"
	}
}

var (
	cmu       sync.Mutex
	termCache = map[int][]ref.DT{}
	nyCache   = map[int]int{}
)

// Terms returns the 31 term instants of the table attached to civil year y, ascending.
func Terms(y int) []ref.DT {
	cmu.Lock()
	if v, ok := termCache[y]; ok {
		cmu.Unlock()
		return v
	}
	cmu.Unlock()
	v := terms(y)
	cmu.Lock()
	if len(termCache) > 4000 {
		termCache = map[int][]ref.DT{}
	}
	termCache[y] = v
	cmu.Unlock()
	return v
}

func terms(y int) []ref.DT {
	l := calendar.NewSolarFromYmd(y, 6, 1).GetLunar()
	tb := l.GetJieQiTable()
	var out []ref.DT
	for _, n := range calendar.JIE_QI_IN_USE {
		s := tb[n]
		out = append(out, ref.DT{Y: s.GetYear(), M: s.GetMonth(), D: s.GetDay(), H: s.GetHour(), Mi: s.GetMinute(), S: s.GetSecond()})
	}
	sort.Slice(out, func(i, j int) bool { return out[i].Sec() < out[j].Sec() })
	return out
}

// NewYearJDN returns the JDN of lunar 1/1 of lunar year y according to the library.
func NewYearJDN(y int) int {
	cmu.Lock()
	if v, ok := nyCache[y]; ok {
		cmu.Unlock()
		return v
	}
	cmu.Unlock()
	s := calendar.NewLunarFromYmd(y, 1, 1).GetSolar()
	v := ref.JDN(s.GetYear(), s.GetMonth(), s.GetDay())
	cmu.Lock()
	nyCache[y] = v
	cmu.Unlock()
	return v
}

func clampJDN(j int) int {
	if j < ref.JDNMin {
		return ref.JDNMin
	}
	if j > ref.JDNMax {
		return ref.JDNMax
	}
	return j
}

// DayIn draws a civil day (as JDN) of year y with the design's boundary emphasis.
func DayIn(t *rapid.T, y int) int {
	first := ref.JDN(y, 1, 1)
	n := ref.DaysInYear(y)
	k := rapid.IntRange(0, 99).Draw(t, "dayClass")
	var j int
	switch {
	case k < 30:
		j = first + rapid.IntRange(0, n-1).Draw(t, "doy")
	case k < 42: // month first / last day
		m := rapid.IntRange(1, 12).Draw(t, "month")
		if rapid.Bool().Draw(t, "last") {
			j = ref.JDN(y, m, ref.LastDayNumber(y, m))
		} else {
			j = ref.JDN(y, m, 1)
		}
	case k < 54: // around lunar New Year
		j = NewYearJDN(y) + rapid.IntRange(-3, 3).Draw(t, "nyDelta")
	case k < 72: // around a term day
		ts := Terms(y)
		x := ts[rapid.IntRange(0, len(ts)-1).Draw(t, "term")]
		j = ref.JDN(x.Y, x.M, x.D) + rapid.IntRange(-1, 1).Draw(t, "termDelta")
	case k < 82: // Dec 18 .. Jan 25
		j = ref.JDN(y, 12, 18) + rapid.IntRange(0, 38).Draw(t, "winter")
		if rapid.Bool().Draw(t, "prevWinter") {
			j = ref.JDN(y, 1, 25) - rapid.IntRange(0, 38).Draw(t, "winterBack")
		}
	case k < 90: // Feb 27 .. Mar 1
		j = ref.JDN(y, 2, 27) + rapid.IntRange(0, 3).Draw(t, "feb")
	default: // the 1582 seam (only when y is near) else uniform
		if y >= 1581 && y <= 1583 {
			j = ref.JDN(1582, 9, 25) + rapid.IntRange(0, 30).Draw(t, "seam")
		} else {
			j = first + rapid.IntRange(0, n-1).Draw(t, "doy")
		}
	}
	return clampJDN(j)
}

// Day draws a civil day anywhere in the supported range.
func Day(t *rapid.T) int { return DayIn(t, Year(t, 1, 9998)) }

// boundary clock times
var clock = [][3]int{{0, 0, 0}, {0, 0, 1}, {0, 59, 59}, {1, 0, 0}, {12, 0, 0}, {22, 59, 59}, {23, 0, 0}, {23, 0, 1}, {23, 59, 58}, {23, 59, 59}}

// Time draws a time of day: boundary clock times, odd-hour boundaries +-1 s, uniform.
func Time(t *rapid.T) (h, mi, s int) {
	k := rapid.IntRange(0, 99).Draw(t, "timeClass")
	switch {
	case k < 30:
		c := clock[rapid.IntRange(0, len(clock)-1).Draw(t, "clock")]
		return c[0], c[1], c[2]
	case k < 60:
		hh := 2*rapid.IntRange(0, 11).Draw(t, "slot") + 1
		sec := hh*3600 + rapid.IntRange(-1, 1).Draw(t, "slotDelta")
		return sec / 3600, sec % 3600 / 60, sec % 60
	default:
		sec := rapid.IntRange(0, 86399).Draw(t, "sod")
		return sec / 3600, sec % 3600 / 60, sec % 60
	}
}

// Moment draws a civil date-time; with probability ~1/3 it sits at a term instant of the year
// shifted by one of {0, +-1 s, +-60 s, +-3600 s}.
func Moment(t *rapid.T) ref.DT { return MomentIn(t, 1, 9998) }

// MomentIn is Moment restricted to years lo..hi.
func MomentIn(t *rapid.T, lo, hi int) ref.DT {
	y := Year(t, lo, hi)
	if rapid.IntRange(0, 2).Draw(t, "atTerm") == 0 {
		ts := Terms(y)
		x := ts[rapid.IntRange(0, len(ts)-1).Draw(t, "term")]
		d := rapid.SampledFrom([]int64{0, 1, -1, 60, -60, 3600, -3600, 86400, -86400}).Draw(t, "termShift")
		sec := x.Sec() + d
		r := ref.FromSec(sec)
		if r.Y >= lo && r.Y <= hi && r.Y >= 1 && r.Y <= 9998 {
			return r
		}
		if x.Y >= lo && x.Y <= hi && x.Y >= 1 && x.Y <= 9998 {
			return x
		}
		return ref.DT{Y: y, M: 6, D: 15, H: 12}
	}
	j := DayIn(t, y)
	yy, mm, dd := ref.FromJDN(j)
	if yy < lo || yy > hi {
		yy, mm, dd = ref.FromJDN(ref.JDN(y, 6, 15))
	}
	h, mi, s := Time(t)
	return ref.DT{Y: yy, M: mm, D: dd, H: h, Mi: mi, S: s}
}

// Step draws a step count of either sign with the design's size classes.
func Step(t *rapid.T, max int) int {
	k := rapid.IntRange(0, 9).Draw(t, "stepClass")
	var n int
	switch k {
	case 0:
		n = 0
	case 1:
		n = 1
	case 2:
		n = rapid.IntRange(2, 9).Draw(t, "step")
	case 3:
		n = rapid.IntRange(28, 31).Draw(t, "step")
	case 4:
		n = rapid.IntRange(59, 61).Draw(t, "step")
	case 5:
		n = rapid.IntRange(354, 385).Draw(t, "step")
	case 6, 7:
		n = rapid.IntRange(10, 3000).Draw(t, "step")
	default:
		n = rapid.IntRange(0, max).Draw(t, "step")
	}
	if n > max {
		n = max
	}
	if rapid.Bool().Draw(t, "neg") {
		n = -n
	}
	return n
}

// Solar builds the library's civil object for a reference date-time.
func Solar(d ref.DT) *calendar.Solar { return calendar.NewSolar(d.Y, d.M, d.D, d.H, d.Mi, d.S) }

// FromSolar reads a library civil object back into a reference date-time.
func FromSolar(s *calendar.Solar) ref.DT {
	return ref.DT{Y: s.GetYear(), M: s.GetMonth(), D: s.GetDay(), H: s.GetHour(), Mi: s.GetMinute(), S: s.GetSecond()}
}
