package gen

import "verif/internal/ref"

// PillarModel holds the sexagenary cycle indices a moment must have according to R-gz, R-civil and
// the term instants of the civil year's table (the same model C05 checks the library against).
type PillarModel struct {
	YearNY, YearLC, YearEx int // year pillar: lunar New Year / Lichun day / Lichun instant
	MonthDay, MonthEx      int // month pillar: Jie day / Jie instant
	Day, DayEx, DayEx2     int // day pillar: civil day / next day from 23:00 / civil day
	Time                   int // hour pillar
	KDay, KEx              int // number of Jie (of the table's 16) at or before the day / the instant
}

// Pillars computes the model for civil moment t whose lunar year (New-Year based) is lunarYear.
func Pillars(t ref.DT, lunarYear int) PillarModel {
	var m PillarModel
	ts := Terms(t.Y)
	day := int64(ref.JDN(t.Y, t.M, t.D))
	now := t.Sec()
	for i := 0; i < len(ts); i += 2 {
		x := ts[i]
		if int64(ref.JDN(x.Y, x.M, x.D)) <= day {
			m.KDay++
		}
		if x.Sec() <= now {
			m.KEx++
		}
	}
	aDay := 12*(t.Y-1) + 9 + m.KDay
	aEx := 12*(t.Y-1) + 9 + m.KEx
	m.YearNY = ref.YearPillar(lunarYear)
	m.YearLC = ref.YearPillar(ref.FloorDiv(aDay, 12))
	m.YearEx = ref.YearPillar(ref.FloorDiv(aEx, 12))
	m.MonthDay = ref.MonthPillar(ref.FloorDiv(aDay, 12), ref.Mod(aDay, 12))
	m.MonthEx = ref.MonthPillar(ref.FloorDiv(aEx, 12), ref.Mod(aEx, 12))
	m.Day = ref.DayPillar(int(day))
	m.DayEx2 = m.Day
	m.DayEx = m.Day
	if t.H == 23 {
		m.DayEx = (m.Day + 1) % 60
	}
	tz := ref.HourBranch(t.H)
	m.Time = ref.PairIndex(ref.HourStem(m.DayEx%10, tz), tz)
	return m
}
