// Package ref holds the independent reference models (R-civil, R-gz, R-astro). Nothing in this
// package imports the library under test.
package ref

// R-civil: integer civil calendar. Julian calendar up to 1582-10-04, Gregorian from 1582-10-15,
// the ten days in between do not exist. Standard integer Julian-Day-Number formulas (Fliegel &
// Van Flandern / Meeus ch. 7 in integer form).

const (
	JDNGregorianStart = 2299161 // 1582-10-15
	JDNMin            = 1721424 // 0001-01-01 (Julian)
	JDNMax            = 5373118 // 9998-12-31 (Gregorian)
)

// IsGregorian reports whether (y,m,d) is on or after 1582-10-15.
func IsGregorian(y, m, d int) bool {
	return y > 1582 || (y == 1582 && (m > 10 || (m == 10 && d >= 15)))
}

// JDN returns the Julian Day Number (the integer that labels the civil day at noon).
func JDN(y, m, d int) int {
	a := (14 - m) / 12
	yy := y + 4800 - a
	mm := m + 12*a - 3
	if IsGregorian(y, m, d) {
		return d + (153*mm+2)/5 + 365*yy + yy/4 - yy/100 + yy/400 - 32045
	}
	return d + (153*mm+2)/5 + 365*yy + yy/4 - 32083
}

// FromJDN is the inverse of JDN.
func FromJDN(j int) (y, m, d int) {
	var a int
	if j >= JDNGregorianStart {
		al := (4*j - 7468865) / 146097
		a = j + 1 + al - al/4
	} else {
		a = j
	}
	b := a + 1524
	c := (20*b - 2442) / 7305
	dd := 1461 * c / 4
	e := 10000 * (b - dd) / 306001
	d = b - dd - 306001*e/10000
	m = e - 1
	if e >= 14 {
		m = e - 13
	}
	y = c - 4716
	if m <= 2 {
		y = c - 4715
	}
	return
}

// IsLeap: Julian rule up to 1582, Gregorian after.
func IsLeap(y int) bool {
	if y > 1582 {
		return (y%4 == 0 && y%100 != 0) || y%400 == 0
	}
	return y%4 == 0
}

var mdays = [12]int{31, 28, 31, 30, 31, 30, 31, 31, 30, 31, 30, 31}

// DaysInMonth counts the days that exist in the month (21 for 1582-10).
func DaysInMonth(y, m int) int {
	if y == 1582 && m == 10 {
		return 21
	}
	d := mdays[m-1]
	if m == 2 && IsLeap(y) {
		d++
	}
	return d
}

// LastDayNumber is the largest day number of the month (31 for 1582-10).
func LastDayNumber(y, m int) int {
	if y == 1582 && m == 10 {
		return 31
	}
	return DaysInMonth(y, m)
}

// DaysInYear counts existing days (355 for 1582).
func DaysInYear(y int) int {
	if y == 1582 {
		return 355
	}
	if IsLeap(y) {
		return 366
	}
	return 365
}

// ValidDate reports whether the civil day exists.
func ValidDate(y, m, d int) bool {
	if m < 1 || m > 12 || d < 1 {
		return false
	}
	if y == 1582 && m == 10 {
		return (d >= 1 && d <= 4) || (d >= 15 && d <= 31)
	}
	return d <= DaysInMonth(y, m)
}

// Valid reports whether the civil date-time exists.
func Valid(y, m, d, h, mi, s int) bool {
	return ValidDate(y, m, d) && h >= 0 && h <= 23 && mi >= 0 && mi <= 59 && s >= 0 && s <= 59
}

// Weekday: 0 = Sunday.
func Weekday(j int) int { return (j + 1) % 7 }

// OrdinalInMonth is the 1-based position of the day among the existing days of its month.
func OrdinalInMonth(y, m, d int) int {
	if y == 1582 && m == 10 && d >= 15 {
		return d - 10
	}
	return d
}

// OrdinalInYear is the 1-based position of the day among the existing days of its year.
func OrdinalInYear(y, m, d int) int { return JDN(y, m, d) - JDN(y, 1, 1) + 1 }

// DT is a civil date-time.
type DT struct{ Y, M, D, H, Mi, S int }

// Sec is the instant in seconds: JDN*86400 + second of day.
func (t DT) Sec() int64 { return int64(JDN(t.Y, t.M, t.D))*86400 + int64(t.H*3600+t.Mi*60+t.S) }

// FromSec is the inverse of Sec.
func FromSec(x int64) DT {
	j := x / 86400
	r := x % 86400
	if r < 0 {
		r += 86400
		j--
	}
	y, m, d := FromJDN(int(j))
	return DT{y, m, d, int(r / 3600), int(r % 3600 / 60), int(r % 60)}
}

// AddDays steps whole days keeping the time of day.
func (t DT) AddDays(n int) DT {
	y, m, d := FromJDN(JDN(t.Y, t.M, t.D) + n)
	return DT{y, m, d, t.H, t.Mi, t.S}
}

// Less orders date-times by instant.
func (t DT) Less(o DT) bool { return t.Sec() < o.Sec() }

// AddMonths steps n months; the day number is kept, clamped to the month's last day number, and
// a day number 5..14 landing in 1582-10 is moved forward by 10 (the library's documented rule).
func (t DT) AddMonths(n int) DT {
	tm := t.Y*12 + (t.M - 1) + n
	y, m := floorDiv(tm, 12), mod(tm, 12)+1
	d := t.D
	if y == 1582 && m == 10 {
		if d > 4 && d < 15 {
			d += 10
		}
	} else if d > DaysInMonth(y, m) {
		d = DaysInMonth(y, m)
	}
	return DT{y, m, d, t.H, t.Mi, t.S}
}

func floorDiv(a, b int) int {
	q := a / b
	if (a%b != 0) && ((a < 0) != (b < 0)) {
		q--
	}
	return q
}

func mod(a, b int) int { return ((a % b) + b) % b }

// Mod is the non-negative remainder.
func Mod(a, b int) int { return mod(a, b) }

// FloorDiv is floor division.
func FloorDiv(a, b int) int { return floorDiv(a, b) }
