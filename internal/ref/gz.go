package ref

// R-gz: sexagenary arithmetic written from the textbook rules.

var Gan = []string{"甲", "乙", "丙", "丁", "戊", "己", "庚", "辛", "壬", "癸"}
var Zhi = []string{"子", "丑", "寅", "卯", "辰", "巳", "午", "未", "申", "酉", "戌", "亥"}

// Pair returns the name of the sexagenary pair with cycle index i (0 = 甲子).
func Pair(i int) string { i = Mod(i, 60); return Gan[i%10] + Zhi[i%12] }

// PairIndex returns the cycle index of (stem, branch) or -1 if the parities differ.
func PairIndex(g, z int) int {
	if (g-z)%2 != 0 {
		return -1
	}
	for i := 0; i < 60; i++ {
		if i%10 == g && i%12 == z {
			return i
		}
	}
	return -1
}

// PairIndexOf returns the cycle index of a two-character name, -1 if it is not one of the 60.
func PairIndexOf(name string) int {
	for i := 0; i < 60; i++ {
		if Pair(i) == name {
			return i
		}
	}
	return -1
}

// DayPillar is the cycle index of the civil day with Julian Day Number j (2000-01-01 = 戊午 = 54).
func DayPillar(j int) int { return Mod(j-11, 60) }

// YearPillar is the cycle index of year y (4 AD = 甲子).
func YearPillar(y int) int { return Mod(y-4, 60) }

// HourBranch is the branch index of the two-hour slot containing hour h (23:00-00:59 = 子 = 0).
func HourBranch(h int) int { return ((h + 1) / 2) % 12 }

// HourStem applies the five-rats rule: the 子 hour of a 甲/己 day is 甲子.
func HourStem(dayStem, hourBranch int) int { return (dayStem%5*2 + hourBranch) % 10 }

// MonthPillar is the cycle index of the month that is the o-th (0 = 寅 ... 11 = 丑) of the
// Lichun-year y: five-tigers rule (寅 month of a 甲/己 year is 丙寅), equivalently the unbroken
// 60-cycle anchored at 1984 寅月 = 丙寅.
func MonthPillar(y, o int) int { return Mod(12*(y-1984)+o+2, 60) }
