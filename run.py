#!/usr/bin/env python3
"""Driver for the lunar-go property checks.

  run.py <Cxx> <quick|thorough>     build the check from /repo's working tree, run it sharded,
                                    merge the parts into evidence/<Cxx>.json
  run.py replay <file>              feed one saved case straight to its property function

exit 0 property held on everything explored (KNOWN-FINDING lines may be printed)
exit 1 + 'VIOLATION property=<id> replay=<path>' for a violation not listed in KNOWN_FINDINGS.txt
exit 2 infrastructure trouble (harness build failure, timeout, worker death, generator regression)
"""
import json, os, sys, subprocess, time, hashlib, shutil, struct, glob

ROOT = os.path.dirname(os.path.abspath(__file__))
BUILD = os.path.join(ROOT, ".build")
KNOWN = os.path.join(ROOT, "KNOWN_FINDINGS.txt")

# per-check configuration: shards and wall budgets (seconds) per tier; race = also build with -race
DEFAULT = {"shards": (16, 16), "budget": (600, 7200), "race": False}
# native go fuzz targets (thorough tier only, additive): (target, seconds)
FUZZ = {
    "C04": [("FuzzJulianDay", 25), ("FuzzStep", 25)],
    "C07": [("FuzzNewSolar", 25)],
    "C14": [("FuzzFix", 40)],
}

CHECKS = {
    "C09": {"shards": (8, 16), "budget": (900, 7200), "race": True, "deadlock_is_violation": True},
}


def goenv():
    e = dict(os.environ)
    e.update({"GOFLAGS": "-mod=mod", "GOPROXY": "off", "GOSUMDB": "off", "GOTOOLCHAIN": "local"})
    e.setdefault("GOCACHE", os.path.join(os.path.expanduser("~"), ".cache", "go-build"))
    return e


def sh(cmd, **kw):
    return subprocess.run(cmd, stdout=subprocess.PIPE, stderr=subprocess.STDOUT, text=True, **kw)


def build(cid, race=False):
    os.makedirs(os.path.join(BUILD, "bin"), exist_ok=True)
    out = os.path.join(BUILD, "bin", cid + (".race" if race else "") + ".test")
    cmd = ["go", "test", "-c", "-tags", "verif", "-vet=off", "-o", out]
    if race:
        cmd.append("-race")
    cmd.append("./checks/" + cid.lower() + "/")
    try:
        r = sh(cmd, cwd=ROOT, env=goenv(), timeout=900)
    except subprocess.TimeoutExpired:
        print("INFRA: build timed out")
        sys.exit(2)
    if r.returncode != 0:
        print("INFRA: build failed\n" + r.stdout[-4000:])
        sys.exit(2)
    return out


def open_findings(cid):
    res = []
    if not os.path.exists(KNOWN):
        return res
    for line in open(KNOWN, encoding="utf-8"):
        line = line.strip()
        if not line.startswith("open:"):
            continue
        ws = line[5:].split()
        prop = sig = None
        rest = []
        for w in ws:
            if w.startswith("property=") and prop is None:
                prop = w[9:]
            elif w.startswith("sig=") and sig is None:
                sig = w[4:]
            else:
                rest.append(w)
        if prop == cid and sig:
            res.append((sig, " ".join(rest)))
    return res


def main():
    if len(sys.argv) >= 3 and sys.argv[1] == "replay":
        return replay(sys.argv[2])
    if len(sys.argv) < 3:
        print(__doc__)
        return 2
    cid = sys.argv[1].upper()
    tier = os.environ.get("VERIF_TIER") or sys.argv[2]
    if tier not in ("quick", "thorough"):
        tier = "quick"
    try:
        seed = int(os.environ.get("VERIF_SEED", "1"))
    except ValueError:
        seed = 1
    if seed < 0:
        seed = -seed
    cfg = dict(DEFAULT)
    cfg.update(CHECKS.get(cid, {}))
    ti = 0 if tier == "quick" else 1
    nsh = int(os.environ.get("VERIF_SHARDS", cfg["shards"][ti]))
    budget = int(os.environ.get("VERIF_BUDGET", cfg["budget"][ti]))
    t0 = time.time()
    binp = build(cid)
    racebin = build(cid, race=True) if cfg["race"] else None
    out = os.path.join(BUILD, "out", cid)
    shutil.rmtree(out, ignore_errors=True)
    os.makedirs(out)
    shutil.rmtree(os.path.join(ROOT, "checks", cid.lower(), "testdata", "rapid"), ignore_errors=True)
    procs = []
    for i in range(nsh):
        e = goenv()
        e.update({"VERIF_TIER": tier, "VERIF_SEED": str(seed), "VERIF_SHARD": str(i), "VERIF_NSHARDS": str(nsh),
                  "VERIF_OUT": out, "VERIF_KNOWN": KNOWN, "VERIF_ROOT": ROOT})
        if racebin:
            e["VERIF_RACEBIN"] = racebin
        e.pop("VERIF_REPLAY", None)
        log = open(os.path.join(out, "log.%d.txt" % i), "w")
        p = subprocess.Popen([binp, "-test.timeout=0", "-test.count=1"], cwd=os.path.join(ROOT, "checks", cid.lower()),
                             env=e, stdout=log, stderr=subprocess.STDOUT)
        procs.append((p, log))
    infra = []
    deadline = t0 + budget
    for i, (p, log) in enumerate(procs):
        try:
            p.wait(timeout=max(1, deadline - time.time()))
        except subprocess.TimeoutExpired:
            p.kill()
            p.wait()
            infra.append("shard %d exceeded the %d s budget (inconclusive)" % (i, budget))
        log.close()
    parts = []
    deadlocks = []
    for i in range(nsh):
        pf = os.path.join(out, "part.%d.json" % i)
        if not os.path.exists(pf):
            tail = ""
            try:
                tail = open(os.path.join(out, "log.%d.txt" % i)).read()[-3000:]
            except OSError:
                pass
            if cfg.get("deadlock_is_violation") and "all goroutines are asleep - deadlock" in tail and "lunar-go/calendar" in tail:
                rdir = os.path.join(ROOT, "replays", cid)
                os.makedirs(rdir, exist_ok=True)
                rp = os.path.join(rdir, "deadlock-shard%d.log" % i)
                open(rp, "w").write(tail)
                deadlocks.append(rp)
                continue
            infra.append("shard %d wrote no part file (worker death); log tail:\n%s" % (i, tail))
            continue
        parts.append(json.load(open(pf)))
    # ---- native fuzzing (thorough only; cannot be pinned to a seed, the saved input is the reproducible unit)
    fuzz_report, fuzz_viol = [], []
    if tier == "thorough":
        import re
        for target, secs in FUZZ.get(cid, []):
            pkg = "./checks/" + cid.lower() + "/"
            try:
                r = sh(["go", "test", "-tags", "verif", "-vet=off", "-run", "^$", "-fuzz", "^%s$" % target, "-fuzztime", "%ds" % secs, pkg],
                       cwd=ROOT, env=goenv(), timeout=secs + 600)
            except subprocess.TimeoutExpired:
                infra.append("native fuzz target %s timed out (inconclusive)" % target)
                continue
            execs = re.findall(r"execs: (\d+)", r.stdout)
            rep = {"target": target, "seconds": secs, "execs": int(execs[-1]) if execs else 0, "failed": False}
            m = re.search(r"VERIF-FUZZ-FAIL prop=(\S+) case=(\{.*?\}) err=(.*)", r.stdout)
            if m:
                rep["failed"] = True
                try:
                    fuzz_viol.append({"prop": m.group(1), "case": json.loads(m.group(2)), "error": m.group(3)[:800], "via": "native-fuzz " + target})
                except ValueError:
                    infra.append("fuzz failure with unreadable case: " + m.group(0)[:300])
            elif r.returncode != 0:
                infra.append("native fuzz target %s exited %d: %s" % (target, r.returncode, r.stdout[-600:]))
            fuzz_report.append(rep)
            shutil.rmtree(os.path.join(ROOT, "checks", cid.lower(), "testdata", "fuzz"), ignore_errors=True)
    # ---- merge
    subs = {}
    order = []
    notes, assumes = [], []
    for pt in parts:
        if pt.get("infra"):
            infra.append("shard %d reported an infrastructure problem: %s" % (pt["shard"], [n for n in pt.get("notes", []) if n.startswith("INFRA")]))
        for n in pt.get("notes") or []:
            if n not in notes:
                notes.append(n)
        for a in pt.get("assumptions") or []:
            if a not in assumes:
                assumes.append(a)
        for s in pt["subs"]:
            m = subs.get(s["name"])
            if m is None:
                m = {"name": s["name"], "rule": s.get("rule", ""), "evaluations": 0, "distinct_nontrivial": 0, "classes": {},
                     "samples": [], "known_excluded": {}, "known_desc": {}, "violations": [], "n_violations": 0,
                     "exhaustive_domain": s.get("exhaustive_domain", ""), "required": s.get("required_classes") or [],
                     "disjoint": s.get("disjoint", False)}
                subs[s["name"]] = m
                order.append(s["name"])
            m["evaluations"] += s["evaluations"]
            if m["disjoint"]:
                m["distinct_nontrivial"] += s["distinct_nontrivial"]
            for k, v in (s.get("classes") or {}).items():
                m["classes"][k] = m["classes"].get(k, 0) + v
            for smp in s.get("samples") or []:
                if len(m["samples"]) < 6 and smp not in m["samples"]:
                    m["samples"].append(smp)
            for k, v in (s.get("known_excluded") or {}).items():
                m["known_excluded"][k] = m["known_excluded"].get(k, 0) + v
            m["known_desc"].update(s.get("known_desc") or {})
            m["violations"] += s.get("violations") or []
            m["n_violations"] += s.get("n_violations", 0)
            if not s.get("exhaustive_domain"):
                m["exhaustive_domain"] = m["exhaustive_domain"] if s["evaluations"] == 0 else ""
    for name, m in subs.items():
        if not m["disjoint"]:
            hs = set()
            for f in glob.glob(os.path.join(out, "nt.%s.*.bin" % name)):
                b = open(f, "rb").read()
                hs.update(struct.unpack("<%dQ" % (len(b) // 8), b))
            m["distinct_nontrivial"] = len(hs)
    # ---- required classes (a vacuous check must not report success)
    for name in order:
        m = subs[name]
        if m["evaluations"] == 0:
            infra.append("sub-property %s executed no case" % name)
        for rc in m["required"]:
            if m["classes"].get(rc, 0) == 0:
                infra.append("GENERATOR-REGRESSION: sub-property %s produced no case of required class %r" % (name, rc))
    # ---- violations / known findings
    viol_lines = []
    nviol = 0
    seen = set()
    for name in order:
        m = subs[name]
        nviol += m["n_violations"]
        for v in m["violations"]:
            key = hashlib.sha1((v["prop"] + json.dumps(v["case"], sort_keys=True)).encode()).hexdigest()[:12]
            if key in seen:
                continue
            seen.add(key)
            rdir = os.path.join(ROOT, "replays", cid)
            os.makedirs(rdir, exist_ok=True)
            rp = os.path.join(rdir, "%s-%s.json" % (v["prop"], key))
            json.dump({"property_id": cid, "prop": v["prop"], "case": v["case"], "error": v["error"], "via": v.get("via"),
                       "seed": seed, "tier": tier}, open(rp, "w"), ensure_ascii=False, indent=1)
            viol_lines.append((rp, v))
    for v in fuzz_viol:
        key = hashlib.sha1((v["prop"] + json.dumps(v["case"], sort_keys=True)).encode()).hexdigest()[:12]
        rdir = os.path.join(ROOT, "replays", cid)
        os.makedirs(rdir, exist_ok=True)
        rp = os.path.join(rdir, "%s-%s.json" % (v["prop"], key))
        json.dump({"property_id": cid, "prop": v["prop"], "case": v["case"], "error": v["error"], "via": v["via"], "seed": seed, "tier": tier}, open(rp, "w"), ensure_ascii=False, indent=1)
        viol_lines.append((rp, v))
    # ---- seconds-long replay tier: committed regression cases of repaired findings, fed straight to the oracle
    regress = sorted(glob.glob(os.path.join(ROOT, "regressions", cid, "*.json")))
    regress_ran = 0
    for rf in regress:
        e = goenv()
        e.update({"VERIF_REPLAY": rf, "VERIF_KNOWN": KNOWN, "VERIF_ROOT": ROOT})
        try:
            r = subprocess.run([binp], cwd=os.path.join(ROOT, "checks", cid.lower()), env=e, stdout=subprocess.PIPE, stderr=subprocess.STDOUT, text=True, timeout=300)
        except subprocess.TimeoutExpired:
            infra.append("regression replay %s timed out" % rf)
            continue
        regress_ran += 1
        if r.returncode == 1:
            viol_lines.append((rf, {"prop": json.load(open(rf))["prop"], "case": json.load(open(rf))["case"], "error": r.stdout[-600:], "via": "regression replay"}))
        elif r.returncode != 0:
            infra.append("regression replay %s exited %d: %s" % (rf, r.returncode, r.stdout[-300:]))
    known_seen = {}
    for name in order:
        for k, n in subs[name]["known_excluded"].items():
            known_seen[k] = known_seen.get(k, 0) + n
    # ---- evidence
    wall = time.time() - t0
    total_eval = sum(subs[n]["evaluations"] for n in order)
    total_nt = sum(subs[n]["distinct_nontrivial"] for n in order)
    samples = []
    for n in order:
        for smp in subs[n]["samples"][:3]:
            txt = json.dumps(smp, ensure_ascii=False)
            if len(txt) > 3000:  # large generated programs: keep the head, say so
                smp = {"truncated_json": txt[:3000], "full_length": len(txt)}
            samples.append({"prop": n, "case": smp})
    exh = {n: subs[n]["exhaustive_domain"] for n in order if subs[n]["exhaustive_domain"]}
    coverage = {
        "evaluations": total_eval,
        "distinct_nontrivial": total_nt,
        "rule": " || ".join("%s: %s" % (n, subs[n]["rule"]) for n in order),
        "samples": samples,
        "exhaustive": bool(order) and len(exh) == len(order),
        "exhaustive_clauses": exh,
        "sub_properties": [{"name": n, "evaluations": subs[n]["evaluations"], "distinct_nontrivial": subs[n]["distinct_nontrivial"],
                            "classes": subs[n]["classes"], "known_finding_cases_excluded": subs[n]["known_excluded"],
                            "failing_evaluations": subs[n]["n_violations"]} for n in order],
        "known_findings_seen": known_seen,
        "shards": nsh,
        "native_fuzz": fuzz_report,
        "regression_replays": regress_ran,
        "notes": notes,
        "inconclusive": infra,
    }
    ev = {"property_id": cid, "tier": tier, "seed": seed, "level": "exploration", "coverage": coverage,
          "assumptions": assumes, "wall_s": round(wall, 2), "violations": len(viol_lines) + len(deadlocks)}
    os.makedirs(os.path.join(ROOT, "evidence"), exist_ok=True)
    json.dump(ev, open(os.path.join(ROOT, "evidence", cid + ".json"), "w"), ensure_ascii=False, indent=1)
    # ---- report
    print("%s %s seed=%d shards=%d evaluations=%d distinct_nontrivial=%d wall=%.1fs" % (cid, tier, seed, nsh, total_eval, total_nt, wall))
    for n in order:
        m = subs[n]
        print("  %-28s evals=%-9d nt=%-8d %s" % (n, m["evaluations"], m["distinct_nontrivial"],
                                               ("exhaustive[" + m["exhaustive_domain"] + "]") if m["exhaustive_domain"] else ""))
    for sig, desc in open_findings(cid):
        print("KNOWN-FINDING: property=%s %s (sig=%s, matched %d failing cases in this run)" % (cid, desc, sig, known_seen.get(sig, 0)))
    for rp in deadlocks:
        print("VIOLATION property=%s replay=%s" % (cid, rp))
        print("   the check process deadlocked inside the library (Go runtime: all goroutines are asleep); stack in the replay file")
    if deadlocks and not viol_lines:
        return 1
    if viol_lines:
        for rp, v in viol_lines[:6]:
            print("VIOLATION property=%s replay=%s" % (cid, rp))
            print("   sub-property=%s via=%s case=%s\n   %s" % (v["prop"], v.get("via"), json.dumps(v["case"], ensure_ascii=False)[:600], v["error"][:700]))
        if len(viol_lines) > 6:
            print("   ... %d more replay files under %s" % (len(viol_lines) - 6, os.path.join(ROOT, "replays", cid)))
        return 1
    if nviol and not viol_lines:
        infra.append("failing evaluations were counted but no case was captured")
    if infra:
        for s in infra:
            print("INFRA:", s)
        return 2
    return 0


def replay(path):
    path = os.path.abspath(path)
    rf = json.load(open(path))
    cid = rf["property_id"]
    binp = build(cid)
    e = goenv()
    e.update({"VERIF_REPLAY": path, "VERIF_KNOWN": KNOWN, "VERIF_ROOT": ROOT})
    r = subprocess.run([binp], cwd=os.path.join(ROOT, "checks", cid.lower()), env=e)
    if r.returncode == 1:
        print("VIOLATION property=%s replay=%s" % (cid, path))
    return r.returncode


if __name__ == "__main__":
    sys.exit(main())
