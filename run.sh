#!/bin/sh
# ./run.sh <Cxx> <quick|thorough>   |   ./run.sh replay <file>
cd "$(dirname "$0")" || exit 2
export GOFLAGS=-mod=mod GOPROXY=off GOSUMDB=off GOTOOLCHAIN=local
exec python3 ./run.py "$@"
