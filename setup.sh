#!/bin/sh
# MANIFEST.setup_cmd: offline; resolves modules from the module cache and pre-builds every check binary.
cd "$(dirname "$0")" || exit 2
export GOFLAGS=-mod=mod GOPROXY=off GOSUMDB=off GOTOOLCHAIN=local
mkdir -p .build/bin evidence replays
go mod tidy >/dev/null 2>&1 || true
rc=0
for d in checks/*/; do
  id=$(basename "$d" | tr a-z A-Z)
  go test -c -tags verif -vet=off -o ".build/bin/$id.test" "./$d" || rc=2
done
# the race-detector build used by C09 (cold: 30-45 s) so that the quick tier finds it in the build cache
go test -c -race -tags verif -vet=off -o .build/bin/C09.race.test ./checks/c09/ || rc=2
exit $rc
