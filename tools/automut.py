#!/usr/bin/env python3
"""tools/automut.py <worker> <nworkers> <count> [seed] — syntactic mutation run (sensitivity at scale).

Samples single-token mutants of the library's logic (relational boundary, ==/!=, &&/||, integer constant +-1,
+/- swap, a guard forced false / true, a deleted assignment), keeps those that compile AND pass the repository's own test suite, and runs the quick checks whose
coverage profile (/tmp/cov/*.out, produced with -coverpkg) touches the mutated line, in private copies of /repo
and /verif. Survivors (no check reports a VIOLATION) are written to notes/automut_survivors.jsonl for triage:
a survivor is either an equivalent mutant, a change outside every listed property, or a weakness of a check.
"""
import glob, json, os, random, re, shutil, subprocess, sys, collections

W, NW, COUNT = int(sys.argv[1]), int(sys.argv[2]), int(sys.argv[3])
SEED = int(sys.argv[4]) if len(sys.argv) > 4 else 1
ENV = dict(os.environ, GOFLAGS="-mod=mod", GOPROXY="off", GOSUMDB="off", GOTOOLCHAIN="local", VERIF_SHARDS="6")
BASE = "/tmp/mt/%d" % W
REPO, VERIF = BASE + "/repo", BASE + "/verif"
FILES = ["calendar/Lunar.go", "calendar/Solar.go", "calendar/LunarYear.go", "calendar/LunarMonth.go", "calendar/LunarTime.go", "calendar/EightChar.go",
         "calendar/Yun.go", "calendar/DaYun.go", "calendar/LiuNian.go", "calendar/LiuYue.go", "calendar/XiaoYun.go", "calendar/SolarWeek.go", "calendar/SolarMonth.go",
         "calendar/SolarSeason.go", "calendar/SolarHalfYear.go", "calendar/SolarYear.go", "calendar/Tao.go", "calendar/Foto.go", "calendar/JieQi.go", "calendar/NineStar.go",
         "SolarUtil/SolarUtil.go", "HolidayUtil/HolidayUtil.go", "HolidayUtil/Holiday.go", "LunarUtil/LunarUtil.go", "ShouXingUtil/ShouXingUtil.go", "FotoUtil/FotoUtil.go"]


def sh(cmd, cwd=None, timeout=1800):
    try:
        r = subprocess.run(cmd, cwd=cwd, env=ENV, stdout=subprocess.PIPE, stderr=subprocess.STDOUT, text=True, timeout=timeout)
        return r.returncode, r.stdout
    except subprocess.TimeoutExpired:
        return 124, "timeout"


def coverage_map():
    cov = collections.defaultdict(set)  # (file, line) -> checks
    for f in glob.glob('/tmp/cov/*.out'):
        cid = os.path.basename(f)[:-4].upper()
        for line in open(f):
            if line.startswith('mode:'):
                continue
            loc, n, c = line.rsplit(' ', 2)
            if int(c) == 0:
                continue
            fn, rng = loc.split(':')
            fn = fn.replace('github.com/6tail/lunar-go/', '')
            a, b = rng.split(',')
            for ln in range(int(a.split('.')[0]), int(b.split('.')[0]) + 1):
                cov[(fn, ln)].add(cid)
    return cov


OPS = [
    (re.compile(r'(?<![<>=!])<=(?!=)'), '<'), (re.compile(r'(?<![<>=!-])<(?![=<-])'), '<='),
    (re.compile(r'(?<![<>=!])>=(?!=)'), '>'), (re.compile(r'(?<![<>=!-])>(?![=>])'), '>='),
    (re.compile(r'=='), '!='), (re.compile(r'!='), '=='), (re.compile(r'&&'), '||'), (re.compile(r'\|\|'), '&&'),
    (re.compile(r'(?<=[\w\)\]]) \+ (?=[\w\(])'), ' - '), (re.compile(r'(?<=[\w\)\]]) - (?=[\w\(])'), ' + '),
]
NUM = re.compile(r'(?<![\w."])(\d{1,4})(?![\w."])')


def candidates(repo):
    out = []
    for f in FILES:
        p = os.path.join(repo, f)
        if not os.path.exists(p):
            continue
        infunc = False
        for i, line in enumerate(open(p, encoding='utf-8').read().split('\n'), 1):
            st = line.strip()
            if st.startswith('func '):
                infunc = True
            if not infunc or st.startswith('//') or st.startswith('var ') or '"' in st and len(st) > 200 or 'panic(' in st or 'Sprintf' in st and '%' in st and 'if' not in st:
                continue
            code = line.split('//')[0]
            if '"' in code and not code.strip().startswith(('if', '} else if', 'for', 'return')):
                continue
            for rx, rep in OPS:
                for m in rx.finditer(code):
                    # skip matches inside string literals
                    if code[:m.start()].count('"') % 2 == 1:
                        continue
                    out.append((f, i, m.start(), m.end(), rep))
            # dropped special case / dropped update: a guard that never fires, an arm that always fires, a deleted assignment
            mm = re.match(r'^(\s*(?:\} else )?if )(.+)( \{\s*)$', code)
            if mm and ';' not in mm.group(2):
                out.append((f, i, 0, len(line), mm.group(1) + 'false && (' + mm.group(2) + ')' + mm.group(3)))
                out.append((f, i, 0, len(line), mm.group(1) + 'true || (' + mm.group(2) + ')' + mm.group(3)))
            if re.match(r'^\s*[\w\.\[\]]+ (=|\+=|-=) .+$', code) or re.match(r'^\s*[\w\.\[\]]+(\+\+|--)\s*$', code):
                out.append((f, i, 0, len(line), ''))
            for m in NUM.finditer(code):
                if code[:m.start()].count('"') % 2 == 1:
                    continue
                v = int(m.group(1))
                out.append((f, i, m.start(), m.end(), str(v + 1)))
                if v > 0:
                    out.append((f, i, m.start(), m.end(), str(v - 1)))
    return out


def main():
    if os.path.isdir(REPO):
        sh(["git", "-C", "/repo", "worktree", "remove", "--force", REPO])
    shutil.rmtree(BASE, ignore_errors=True)
    os.makedirs(BASE)
    assert sh(["git", "-C", "/repo", "worktree", "add", "--detach", REPO, "HEAD"])[0] == 0
    sh(["rsync", "-a", "--exclude", ".git", "--exclude", ".build", "--exclude", "replays", "/verif/", VERIF + "/"])
    gm = open(VERIF + "/go.mod").read().replace("=> /repo", "=> " + REPO)
    open(VERIF + "/go.mod", "w").write(gm)
    cov = coverage_map()
    cands = candidates(REPO)
    rnd = random.Random(SEED)
    rnd.shuffle(cands)
    mine = [c for k, c in enumerate(cands) if k % NW == W][:COUNT]
    outp = "/verif/notes/automut_results.%d.jsonl" % W
    n = 0
    for (f, ln, a, b, rep) in mine:
        p = os.path.join(REPO, f)
        lines = open(p, encoding='utf-8').read().split('\n')
        orig = lines[ln - 1]
        lines[ln - 1] = orig[:a] + rep + orig[b:]
        open(p, 'w', encoding='utf-8').write('\n'.join(lines))
        rec = {"file": f, "line": ln, "orig": orig.strip()[:160], "mutant": lines[ln - 1].strip()[:160]}
        try:
            rc, out = sh(["go", "build", "./..."], cwd=REPO)
            if rc != 0:
                rec["status"] = "does-not-compile"
            else:
                rc, out = sh(["go", "test", "-vet=off", "-count=1", "./..."], cwd=REPO, timeout=600)
                if rc != 0:
                    rec["status"] = "killed-by-existing-suite"
                else:
                    checks = sorted(cov.get((f, ln), set()))
                    rec["checks"] = checks
                    if not checks:
                        rec["status"] = "line-not-covered-by-any-check"
                    else:
                        rec["status"] = "SURVIVED"
                        res = {}
                        order = sorted(checks, key=lambda c: (c in ("C08", "C09", "C01", "C07"), c))  # cheap ones first
                        for c in order:
                            rc, out = sh(["./run.sh", c, "quick"], cwd=VERIF, timeout=1500)
                            res[c] = rc
                            shutil.rmtree(VERIF + "/replays/" + c, ignore_errors=True)
                            if rc == 1:
                                rec["status"] = "killed"
                                rec["killed_by"] = c
                                break
                        rec["results"] = res
        finally:
            sh(["git", "checkout", "--", "."], cwd=REPO)
        open(outp, "a").write(json.dumps(rec, ensure_ascii=False) + "\n")
        n += 1
        print(W, n, rec["status"], rec.get("killed_by", ""), f, ln, rec["mutant"][:80], flush=True)
    sh(["git", "-C", "/repo", "worktree", "remove", "--force", REPO])
    shutil.rmtree(BASE, ignore_errors=True)


if __name__ == "__main__":
    main()
