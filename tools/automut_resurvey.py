#!/usr/bin/env python3
"""tools/automut_resurvey.py <worker> <nworkers> — re-runs every surviving mutant of notes/automut_results.*.jsonl
against the CURRENT checks: first the checks the coverage map selects, then all the others (C09 included), stopping at
the first check that reports a VIOLATION. The first run of a mutant used one shard's coverage profile to pick checks and
the checks as they stood then; this pass removes both artefacts. Results: notes/automut_resurvey.<w>.jsonl."""
import glob, json, os, shutil, subprocess, sys

W, NW = int(sys.argv[1]), int(sys.argv[2])
ENV = dict(os.environ, GOFLAGS="-mod=mod", GOPROXY="off", GOSUMDB="off", GOTOOLCHAIN="local", VERIF_SHARDS="6")
BASE = "/tmp/mr/%d" % W
REPO, VERIF = BASE + "/repo", BASE + "/verif"
ALL = ["C%02d" % i for i in range(1, 21)]


def sh(cmd, cwd=None, timeout=3000):
    try:
        r = subprocess.run(cmd, cwd=cwd, env=ENV, stdout=subprocess.PIPE, stderr=subprocess.STDOUT, text=True, timeout=timeout)
        return r.returncode, r.stdout
    except subprocess.TimeoutExpired:
        return 124, "timeout"


def main():
    seen, todo = set(), []
    done = set()
    for f in glob.glob('/verif/notes/automut_resurvey.*.jsonl'):
        for l in open(f):
            r = json.loads(l)
            done.add((r['file'], r['line'], r['mutant']))
    for f in sorted(glob.glob('/verif/notes/automut_results.*.jsonl')):
        for l in open(f):
            r = json.loads(l)
            k = (r['file'], r['line'], r['mutant'])
            if r['status'] in ('SURVIVED', 'line-not-covered-by-any-check') and k not in seen:
                seen.add(k)
                if k not in done:
                    todo.append(r)
    todo.sort(key=lambda r: (r['file'], r['line'], r['mutant']))
    mine = [r for i, r in enumerate(todo) if i % NW == W]
    if os.path.isdir(REPO):
        sh(["git", "-C", "/repo", "worktree", "remove", "--force", REPO])
    shutil.rmtree(BASE, ignore_errors=True)
    os.makedirs(BASE)
    assert sh(["git", "-C", "/repo", "worktree", "add", "--detach", REPO, "HEAD"])[0] == 0
    sh(["rsync", "-a", "--exclude", ".git", "--exclude", ".build", "--exclude", "replays", "/verif/", VERIF + "/"])
    gm = open(VERIF + "/go.mod").read().replace("=> /repo", "=> " + REPO)
    open(VERIF + "/go.mod", "w").write(gm)
    outp = "/verif/notes/automut_resurvey.%d.jsonl" % W
    for r in mine:
        p = os.path.join(REPO, r['file'])
        lines = open(p, encoding='utf-8').read().split('\n')
        if lines[r['line'] - 1].strip()[:160] != r['orig']:
            rec = dict(r, resurvey="source-line-changed")
        else:
            ind = lines[r['line'] - 1][:len(lines[r['line'] - 1]) - len(lines[r['line'] - 1].lstrip())]
            full = None
            # the stored mutant text is stripped and cut at 160 characters: rebuild it only when it is complete
            if len(r['mutant']) < 160 and len(r['orig']) < 160:
                full = ind + r['mutant'] if r['mutant'] else ''
            if full is None:
                rec = dict(r, resurvey="mutant-text-truncated")
            else:
                lines[r['line'] - 1] = full
                open(p, 'w', encoding='utf-8').write('\n'.join(lines))
                rec = dict(r)
                try:
                    rc, _ = sh(["go", "build", "./..."], cwd=REPO)
                    if rc != 0:
                        rec["resurvey"] = "does-not-compile"
                    else:
                        first = [c for c in r.get('checks', []) if c in ALL]
                        order = first + [c for c in ALL if c not in first]
                        rec["resurvey"] = "SURVIVED"
                        ran = []
                        for c in order:
                            rc, out = sh(["./run.sh", c, "quick"], cwd=VERIF)
                            ran.append(c)
                            shutil.rmtree(VERIF + "/replays/" + c, ignore_errors=True)
                            if rc == 1:
                                rec["resurvey"] = "killed"
                                rec["killed_by"] = c
                                break
                        rec["ran"] = ran
                finally:
                    sh(["git", "checkout", "--", "."], cwd=REPO)
        open(outp, "a").write(json.dumps(rec, ensure_ascii=False) + "\n")
        print(W, rec["resurvey"], rec.get("killed_by", ""), r['file'], r['line'], r['mutant'][:70], flush=True)
    sh(["git", "-C", "/repo", "worktree", "remove", "--force", REPO])
    shutil.rmtree(BASE, ignore_errors=True)


if __name__ == "__main__":
    main()
