#!/usr/bin/env python3
"""tools/automut_tally.py — tally of notes/automut_results.*.jsonl (distinct mutants)."""
import collections, glob, json
seen, c = set(), collections.Counter()
for f in sorted(glob.glob('/verif/notes/automut_results.*.jsonl')):
    for l in open(f):
        r = json.loads(l)
        k = (r['file'], r['line'], r['mutant'])
        if k in seen:
            continue
        seen.add(k)
        c[r['status']] += 1
for k, v in c.most_common():
    print('%-34s %d' % (k, v))
reached = c['killed'] + c['SURVIVED']
if reached:
    print('reached the checks: %d, reported: %d (%.0f%%)' % (reached, c['killed'], 100.0 * c['killed'] / reached))
