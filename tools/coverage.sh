#!/bin/bash
# tools/coverage.sh [outdir] — statement coverage of the library by each quick check (one shard of 16 is
# enough: every shard runs every code path of the check on its share of the cases). Writes <outdir>/cXX.out
# (default /tmp/cov) and prints the merged figure. Used by tools/automut.py to select the checks for a mutant.
export GOFLAGS=-mod=mod GOPROXY=off GOSUMDB=off GOTOOLCHAIN=local
OUT=${1:-/tmp/cov}
mkdir -p "$OUT"
cd /verif
for d in checks/c*/; do
  c=$(basename $d)
  [ "$c" = c09 ] && continue   # C09 drives child processes; its in-process part is a subset of C08's accessors
  t=$(mktemp -d)
  VERIF_TIER=quick VERIF_SEED=1 VERIF_SHARD=3 VERIF_NSHARDS=16 VERIF_OUT=$t VERIF_KNOWN=/verif/KNOWN_FINDINGS.txt VERIF_ROOT=/verif \
    go test -tags verif -vet=off -count=1 -coverpkg=github.com/6tail/lunar-go/... -coverprofile="$OUT/$c.out" ./$d >/dev/null 2>&1 &
  sleep 0.2
done
wait
{ echo "mode: set"; grep -h -v '^mode:' "$OUT"/c*.out | sort -u; } > "$OUT/merged.tmp"
python3 - "$OUT/merged.tmp" <<'PY'
import sys, collections
st = collections.defaultdict(int); n = {}
for l in open(sys.argv[1]):
    if l.startswith('mode:'): continue
    loc, k, c = l.rsplit(' ', 2)
    n[loc] = int(k); st[loc] = max(st[loc], int(c))
tot = sum(n.values()); cov = sum(n[l] for l in n if st[l] > 0)
print("library statements executed by the quick checks (one shard each): %d of %d = %.1f%%" % (cov, tot, 100.0 * cov / tot))
PY
rm -f "$OUT/merged.tmp"
