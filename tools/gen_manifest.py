#!/usr/bin/env python3
"""Regenerates MANIFEST.json from the table below; a property is claimed iff checks/<id>/ exists."""
import json, os, subprocess

ROOT = os.path.dirname(os.path.dirname(os.path.abspath(__file__)))

T = {
 "C01": ("round-trip + successor-relation + digest path-independence oracles over generated and enumerated civil days",
         "R-civil day numbers; reflective digest of all zero-argument getters; library's own month day counts for the successor relation"),
 "C02": ("differential against an independent Meeus new-moon/solar-longitude ephemeris, a re-implemented no-major-term rule engine and a committed ICU 72 golden table, over every month 1645-3000",
         "Meeus ch.49/ch.25 series and Espenak-Meeus delta-T as the independent astronomy (good to ~3-25 min: events that close to UTC+8 midnight are counted and excluded); ICU 72 golden table"),
 "C03": ("structure/adjacency/root-of-ephemeris (hook) checks on every year's 31-term table plus a 20-line lookup model for prev/next/current term at second resolution on generated moments",
         "library's own apparent-longitude function through the verif hook for the 1 s root check; Meeus low-precision sun (25 min) as independent check for years 1..3000"),
 "C04": ("differential against an integer Julian-Day-Number model (R-civil) on generated date-times, real-valued JDs and steps of any size in range; generated routes to an object (constructors, conversions, list rows, stepping, read-only calls in between) must answer like NewSolar of its own fields; exhaustive month tables in the thorough tier",
         "R-civil integer JDN formulas (Julian to 1582-10-04, Gregorian from 1582-10-15) define the civil calendar"),
 "C05": ("sexagenary model (R-gz) + R-civil + the object's own term table vs every pillar accessor on generated boundary moments (Jie instants +-1 s, 23:00, New Year, Lichun)",
         "term instants themselves are C03's job; anchor day pillar (JDN-11) mod 60, year pillar (Y-4) mod 60"),
 "C06": ("structural invariants on every lunar year table, neighbour-table agreement, and model-based month walks (rapid state machine against a flat month list)",
         "flat model list is built from each year's in-year months as reported by the library; reform eras AD 8-23 / 236-240 excluded where the statement excludes them"),
 "C07": ("acceptance-set equality: civil constructors vs R-civil validity on boxes around validity; lunar constructors vs the image of Solar.GetLunar(); stateful chains with a field invariant after every step",
         "image of the forward conversion as the definition of existing lunar dates"),
 "C08": ("reflection-discovered zero-argument accessors (and the lunar date's argument-taking ones, then the zero-argument pass again) called on every reachable object for generated dates; the packed-table decoders' whole domain asked in four orders in four fresh processes; panics, index ranges, vocabulary membership, duplicates",
         "exported tables (and hook-exported yi/ji, shen-sha vocabularies) as the published vocabularies; explicit may-be-empty list"),
 "C09": ("generated call histories vs fresh-cache digests and vs the same probe in a fresh child process (rapid-generated histories, years -799..9990) and generated concurrent programs vs sequential digests, also under the Go race detector; deadlock via the runtime detector in a child process",
         "Go scheduler is not controlled: schedules are sampled; race detector finds unordered executed access pairs"),
 "C10": ("round-trip: forward pillars of generated moments (dense around Jie instants, the rat hour, Lichun) -> reverse lookup must contain the slot; soundness and order of every returned list",
         "forward pillar accessors (checked by C05) define 'has those pillars'"),
 "C11": ("pair table of equivalent accessors compared on generated moments; twin-chart metamorphic relation for eight-character attributes under both sects",
         "none beyond the API itself: both sides are the library"),
 "C12": ("independent re-computation of direction, start offset, period/annual/monthly/minor chains from R-civil and R-gz on generated births (Jie +-1 s/min/h, 23:xx)",
         "the object's own term table for the neighbouring Jie instants (C03)"),
 "C13": ("literal re-derivation of nine-nines, dog days, pentads, Chuxi/Hanshi/She from day numbers, day stems and the object's term days on enumerated days",
         "term days from the object's own table (C03); R-civil; R-gz"),
 "C14": ("independent parse of the 18-byte records + map model; every view compared for every record/day/month/year/target; stateful rapid machine over Fix; workday walk and pay-rate oracle",
         "verif hook exposing/resetting the holiday table; statutory-day list as in the statement (2025 additions admitted either way)"),
 "C15": ("R-civil week/month/season/half-year/year model on generated dates x week starts x steps; exhaustive months x starts in thorough",
         "R-civil"),
 "C16": ("step-rule oracles (no anchor except 2024 = star three) on enumerated days and generated moments for year/month/day/hour stars under every sect",
         "pillar change-overs as modelled in C05; object's own solstice/Jie days (C03)"),
 "C17": ("year-offset and field equality on enumerated days; constructor round trips; predicates as functional dependencies over the run plus definitional tables",
         "exported TaoUtil/FotoUtil tables are the published definitions"),
 "C18": ("functional-dependency maps attribute -> defining inputs kept single-valued over enumerated days x slots; classical laws checked directly",
         "the declared defining-input table is taken from the statement"),
 "C19": ("format regexp + parse-back + order-isomorphism on generated pairs; Chinese renderings parsed back through run-time-built tables; global collision sets",
         "exported NUMBER/MONTH/DAY name tables"),
 "C20": ("own conventional sign table and festival rule language re-interpreted over enumerated days",
         "conventional sign start days as listed in the statement's source tables"),
}

NA_REASON = "check not built yet in this session (design in DESIGN.md section 5); will be claimed when checks/%s exists"


def main():
    checks, na = [], []
    for pid in sorted(T):
        tech, note = T[pid]
        if os.path.isdir(os.path.join(ROOT, "checks", pid.lower())):
            checks.append({
                "property_id": pid,
                "quick_cmd": "./run.sh %s quick" % pid,
                "thorough_cmd": "./run.sh %s thorough" % pid,
                "evidence_file": "/verif/evidence/%s.json" % pid,
                "replay_cmd_template": "./run.sh replay {path}",
                "engine": "rapid+sweeps",
                "level_claimed": {"category": "exploration",
                                  "text": "Generated-input search (rapid v1.3.0, fixed seed from VERIF_SEED) plus deterministic/exhaustive sweeps of the finite sub-domains against an explicit oracle; establishes the property only on what was generated, which the evidence counts and samples.",
                                  "design_ref": "DESIGN.md section 5 " + pid},
                "level_note": note,
                "technique": "property-based testing: " + tech,
            })
        else:
            na.append({"property_id": pid, "reason": NA_REASON % pid.lower()})
    hooks_commits = []
    try:
        out = subprocess.run(["git", "-C", "/repo", "log", "--format=%H %s"], stdout=subprocess.PIPE, text=True).stdout
        for line in out.splitlines():
            h, _, s = line.partition(" ")
            if s.startswith("verif-hook:"):
                hooks_commits.append(h)
    except Exception:
        pass
    man = {
        "version": 1,
        "setup_cmd": "./setup.sh",
        "hooks": {
            "guard": "verif (Go build tag)",
            "enable": "go test -c -tags verif (run.py builds every check binary from /repo's working tree through the go.mod replace directive)",
            "baseline_off_cmd": "cd /repo && go test -json -vet=off -count=1 -timeout 25m ./...",
            "source_commits": hooks_commits,
            "add_only": True,
        },
        "engines": [{"name": "rapid+sweeps", "path": "/verif/run.py", "serves_properties": [c["property_id"] for c in checks],
                     "kind_free_text": "pgregory.net/rapid v1.3.0 property-based testing with shrinking, deterministic exhaustive sweeps sharded over 16 processes, native go fuzz targets (thorough, additive), Go race detector for C09"}],
        "checks": checks,
        "notes": "Exit codes: 0 held, 1 VIOLATION, 2 inconclusive (infrastructure). KNOWN_FINDINGS.txt lists open findings (input-class signatures) and fixed ones. VERIF_SEED selects the rapid seed; VERIF_TIER overrides the tier argument.",
        "not_applicable": na,
    }
    json.dump(man, open(os.path.join(ROOT, "MANIFEST.json"), "w"), indent=1, ensure_ascii=False)
    print("claimed:", [c["property_id"] for c in checks])


if __name__ == "__main__":
    main()
