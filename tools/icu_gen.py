import ctypes, datetime, json
i18n = ctypes.CDLL("libicui18n.so.72")
err = ctypes.c_int(0)
tz = (ctypes.c_uint16*4)(*[ord(c) for c in "UTC"],0)
i18n.ucal_open_72.restype = ctypes.c_void_p
i18n.ucal_open_72.argtypes=[ctypes.c_void_p, ctypes.c_int32, ctypes.c_char_p, ctypes.c_int, ctypes.POINTER(ctypes.c_int)]
cal = i18n.ucal_open_72(tz, 3, b"zh_CN@calendar=chinese", 0, ctypes.byref(err))
i18n.ucal_setMillis_72.argtypes=[ctypes.c_void_p, ctypes.c_double, ctypes.POINTER(ctypes.c_int)]
i18n.ucal_get_72.argtypes=[ctypes.c_void_p, ctypes.c_int, ctypes.POINTER(ctypes.c_int)]
i18n.ucal_get_72.restype=ctypes.c_int32
d = datetime.date(1900,1,1)
end = datetime.date(2100,12,31)
out=[]
while d <= end:
    dt = datetime.datetime(d.year,d.month,d.day,12,tzinfo=datetime.timezone.utc)
    i18n.ucal_setMillis_72(cal, dt.timestamp()*1000.0, ctypes.byref(err))
    dom = i18n.ucal_get_72(cal,5,ctypes.byref(err))
    if dom == 1:
        y = i18n.ucal_get_72(cal,19,ctypes.byref(err)) - 2637
        m = i18n.ucal_get_72(cal,2,ctypes.byref(err))+1
        leap = i18n.ucal_get_72(cal,22,ctypes.byref(err))
        out.append("%s %d %d" % (d.isoformat(), y, -m if leap else m))
    d += datetime.timedelta(days=1)
open("icu.txt","w").write("\n".join(out)+"\n")
print(len(out), err.value)
