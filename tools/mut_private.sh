#!/bin/bash
# tools/mut_private.sh <patch.diff> <check> [<check> ...] — runs quick checks against a seeded change without touching
# /repo's working tree: scratch worktree of /repo HEAD + the patch, private copy of /verif whose go.mod points at it.
# Prints one line per check: "<check> exit=<rc> <first VIOLATION sub-property line>"; cleans up after itself.
export GOFLAGS=-mod=mod GOPROXY=off GOSUMDB=off GOTOOLCHAIN=local
P=$(readlink -f "$1"); shift
TAG=$$
WT=/tmp/wt/priv$TAG; VC=/tmp/vc$TAG
git -C /repo worktree add --detach $WT HEAD >/dev/null 2>&1 || exit 3
if ! git -C $WT apply "$P"; then echo "patch does not apply"; git -C /repo worktree remove --force $WT; exit 3; fi
mkdir -p $VC && rsync -a --exclude .git --exclude .build --exclude replays /verif/ $VC/verif/
sed -i "s#=> /repo#=> $WT#" $VC/verif/go.mod
for c in "$@"; do
  out=$(cd $VC/verif && VERIF_SHARDS=${VERIF_SHARDS:-16} ./run.sh $c quick 2>&1); rc=$?
  echo "$c exit=$rc $(echo "$out" | grep -m1 'sub-property=' | cut -c1-${MUTW:-260})"
done
git -C /repo worktree remove --force $WT; rm -rf $VC
