#!/bin/sh
# tools/mutcheck.sh <patch.diff> <Cxx> [<Cyy> ...]   apply a seeded change to /repo, run the quick checks, undo it.
patch="$1"; shift
cd /repo || exit 2
if ! git diff --quiet; then echo "repo dirty"; exit 2; fi
git apply "$patch" || { echo "patch does not apply"; exit 2; }
go build ./... || { git checkout -- .; echo "does not build"; exit 2; }
for id in "$@"; do
  out=$(cd /verif && ./run.sh "$id" ${TIER:-quick} 2>&1); rc=$?
  echo "== $id rc=$rc"; echo "$out" | grep -E "VIOLATION|INFRA|sub-property" | head -6 | cut -c1-400
done
git checkout -- .; for id in "$@"; do rm -rf /verif/replays/$id; done
git status --short | head
