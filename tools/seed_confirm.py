#!/usr/bin/env python3
"""tools/seed_confirm.py <src_dir> <ID> <k> [checks...]
Confirms a seeded change produced by a sub-agent in a scratch worktree (never in /repo):
  clean tree + demo -> passes; patch applies, builds, suite (without demo) passes; patch + demo -> fails.
Then applies it to /repo, runs the named quick checks, undoes it, and stores everything under
/verif/seeded/<ID>-<k>/ (patch.diff, demo_test.go, meta.json)."""
import json, os, subprocess, sys, shutil

ENV = dict(os.environ, GOFLAGS="-mod=mod", GOPROXY="off", GOSUMDB="off", GOTOOLCHAIN="local")
WT = "/tmp/wt/confirm" + os.environ.get("SEED_TAG", "")
PRIVATE = os.environ.get("SEED_PRIVATE") == "1"
private_det = {}


def sh(cmd, cwd=None, timeout=1800):
    r = subprocess.run(cmd, cwd=cwd, env=ENV, shell=isinstance(cmd, str), stdout=subprocess.PIPE, stderr=subprocess.STDOUT, text=True, timeout=timeout)
    return r.returncode, r.stdout


def main():
    src, pid, k = sys.argv[1], sys.argv[2], sys.argv[3]
    checks = sys.argv[4:] or [pid]
    patch = os.path.join(src, "%s.patch.diff" % k)
    demo = os.path.join(src, "%s_demo_test.go" % k)
    meta_in = os.path.join(src, "%s.meta.json" % k)
    if os.path.isdir(WT):
        sh(["git", "-C", "/repo", "worktree", "remove", "--force", WT])
    rc, out = sh(["git", "-C", "/repo", "worktree", "add", "--detach", WT, "HEAD"])
    assert rc == 0, out
    res = {}
    try:
        dst = os.path.join(WT, "test", "zz_seeded_demo_test.go")
        shutil.copy(demo, dst)
        rc, out = sh("go test -vet=off -count=1 ./test/", cwd=WT)
        res["clean_plus_demo_passes"] = rc == 0
        os.remove(dst)
        rc, out = sh(["git", "apply", patch], cwd=WT)
        res["patch_applies"] = rc == 0
        if rc != 0:
            res["apply_output"] = out[-500:]
        rc, out = sh("go build ./...", cwd=WT)
        res["builds"] = rc == 0
        rc, out = sh("go test -vet=off -count=1 ./...", cwd=WT)
        res["suite_passes_with_patch"] = rc == 0
        shutil.copy(demo, dst)
        rc, out = sh("go test -vet=off -count=1 ./test/", cwd=WT)
        res["patch_plus_demo_fails"] = rc != 0
        res["demo_output_tail"] = out[-600:]
        os.remove(dst)
        ok = all(res.get(x) for x in ("clean_plus_demo_passes", "patch_applies", "builds", "suite_passes_with_patch", "patch_plus_demo_fails"))
        if ok and PRIVATE:
            # SEED_PRIVATE=1: run the checks in a private copy of /verif against the patched scratch worktree, so that
            # /repo's working tree stays untouched (other runs may be reading it)
            VCR = "/tmp/vc" + os.environ.get("SEED_TAG", "")
            VC = VCR + "/verif"
            shutil.rmtree(VCR, ignore_errors=True)
            os.makedirs(VCR)
            sh(["rsync", "-a", "--exclude", ".git", "--exclude", ".build", "--exclude", "replays", "/verif/", VC + "/"])
            gm = open(VC + "/go.mod").read().replace("=> /repo", "=> " + WT)
            open(VC + "/go.mod", "w").write(gm)
            for c in checks:
                rc, out = sh(["./run.sh", c, "quick"], cwd=VC, timeout=3600)
                lines = [l for l in out.splitlines() if "VIOLATION" in l or "sub-property=" in l or l.startswith("INFRA")]
                private_det[c] = {"exit": rc, "first_lines": [l[:300].replace(VC, "/verif") for l in lines[:4]]}
            shutil.rmtree(VCR, ignore_errors=True)
    finally:
        sh(["git", "-C", "/repo", "worktree", "remove", "--force", WT])
    ok = all(res.get(x) for x in ("clean_plus_demo_passes", "patch_applies", "builds", "suite_passes_with_patch", "patch_plus_demo_fails"))
    res["confirmed"] = ok
    det = dict(private_det)
    if ok and not PRIVATE:
        rc, out = sh(["git", "-C", "/repo", "status", "--porcelain"])
        assert out.strip() == "", "repo dirty: " + out
        rc, out = sh(["git", "apply", patch], cwd="/repo")
        assert rc == 0, out
        try:
            for c in checks:
                rc, out = sh(["./run.sh", c, "quick"], cwd="/verif", timeout=3600)
                lines = [l for l in out.splitlines() if "VIOLATION" in l or "sub-property=" in l or l.startswith("INFRA")]
                det[c] = {"exit": rc, "first_lines": [l[:300] for l in lines[:4]]}
                shutil.rmtree("/verif/replays/" + c, ignore_errors=True)
        finally:
            sh(["git", "checkout", "--", "."], cwd="/repo")
            sh(["git", "clean", "-fdq"], cwd="/repo")
    d = "/verif/seeded/%s-%s" % (pid, k)
    os.makedirs(d, exist_ok=True)
    shutil.copy(patch, os.path.join(d, "patch.diff"))
    shutil.copy(demo, os.path.join(d, "demo_test.go"))
    meta = {}
    if os.path.exists(meta_in):
        try:
            meta = json.load(open(meta_in))
        except Exception:
            meta = {"raw": open(meta_in).read()[:2000]}
    head = subprocess.run(["git", "-C", "/repo", "rev-parse", "--short", "HEAD"], stdout=subprocess.PIPE, text=True).stdout.strip()
    out = {"property": pid, "id": "%s-%s" % (pid, k), "summary": meta.get("summary"), "needs": meta.get("needs"),
           "agent_meta": meta, "confirmation": res, "confirmed_against_repo_commit": head,
           "what_i_ran": "tools/seed_confirm.py: scratch worktree of /repo HEAD; demo on clean tree; git apply; go build ./...; go test ./... (suite); suite+demo; then " + ("the quick check in a private copy of /verif whose go.mod points at the patched scratch worktree (/repo untouched)" if PRIVATE else "git -C /repo apply, ./run.sh <check> quick, git checkout -- ."),
           "detection_quick": det, "detected": any(v["exit"] == 1 for v in det.values())}
    json.dump(out, open(os.path.join(d, "meta.json"), "w"), indent=1, ensure_ascii=False)
    print(pid, k, "confirmed" if ok else "NOT-CONFIRMED " + json.dumps({k2: v for k2, v in res.items() if k2 != "demo_output_tail"}), "| detected:", {c: v["exit"] for c, v in det.items()})


if __name__ == "__main__":
    main()
