#!/usr/bin/env python3
"""tools/seed_rerun.py [ids...] — re-applies every seeded patch to /repo HEAD, runs the property's quick check
(plus any check listed in meta.detection_quick), undoes the patch, and records the outcome in meta.json['rerun']."""
import json, glob, os, subprocess, sys, shutil
ENV = dict(os.environ, GOFLAGS="-mod=mod", GOPROXY="off", GOSUMDB="off", GOTOOLCHAIN="local")
def sh(cmd, cwd=None, timeout=3600):
    r = subprocess.run(cmd, cwd=cwd, env=ENV, stdout=subprocess.PIPE, stderr=subprocess.STDOUT, text=True, timeout=timeout)
    return r.returncode, r.stdout
# work on private copies so that the author's /repo and /verif are not disturbed
REPO, VERIF = "/tmp/vr/repo", "/tmp/vr/verif"
if os.path.isdir(REPO):
    sh(["git", "-C", "/repo", "worktree", "remove", "--force", REPO])
os.makedirs("/tmp/vr", exist_ok=True)
assert sh(["git", "-C", "/repo", "worktree", "add", "--detach", REPO, "HEAD"])[0] == 0
shutil.rmtree(VERIF, ignore_errors=True)
sh(["rsync", "-a", "--exclude", ".git", "--exclude", ".build", "--exclude", "replays", "/verif/", VERIF + "/"])
gm = open(VERIF + "/go.mod").read().replace("=> /repo", "=> " + REPO)
open(VERIF + "/go.mod", "w").write(gm)
want = set(sys.argv[1:])
head = sh(["git", "-C", "/repo", "rev-parse", "--short", "HEAD"])[1].strip()
for d in sorted(glob.glob('/verif/seeded/*/')):
    mid = os.path.basename(d.rstrip('/'))
    if want and mid not in want:
        continue
    mp = d + 'meta.json'
    m = json.load(open(mp))
    if not m['confirmation'].get('confirmed') or m.get('classification') == 'outside-statement':
        continue
    assert sh(["git", "-C", REPO, "status", "--porcelain"])[1].strip() == "", "repo dirty"
    rc, out = sh(["git", "apply", d + "patch.diff"], cwd=REPO)
    res = {"repo_commit": head}
    if rc != 0:
        res["applies"] = False
    else:
        res["applies"] = True
        try:
            rc, _ = sh(["go", "build", "./..."], cwd=REPO)
            res["builds"] = rc == 0
            checks = sorted(set([m['property']] + [c for c, v in m.get('detection_quick', {}).items() if v.get('exit') == 1]))
            res["checks"] = {}
            for c in checks:
                rc, out = sh(["./run.sh", c, "quick"], cwd=VERIF)
                res["checks"][c] = rc
                shutil.rmtree(VERIF + "/replays/" + c, ignore_errors=True)
            res["detected"] = any(v == 1 for v in res["checks"].values())
        finally:
            sh(["git", "checkout", "--", "."], cwd=REPO)
            sh(["git", "clean", "-fdq"], cwd=REPO)
    m["rerun"] = res
    json.dump(m, open(mp, "w"), indent=1, ensure_ascii=False)
    print(mid, res, flush=True)
sh(["git", "-C", "/repo", "worktree", "remove", "--force", REPO])
shutil.rmtree(VERIF, ignore_errors=True)
