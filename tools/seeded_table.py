#!/usr/bin/env python3
"""Writes seeded/README.md: one row per seeded change (what, what it needs, confirmed?, caught by)."""
import json, glob, os
rows = []
for d in sorted(glob.glob('/verif/seeded/*/')):
    m = json.load(open(d + 'meta.json'))
    det = m.get('detection_quick', {})
    caught = ", ".join("%s (%s)" % (c, (v['first_lines'][1].split('sub-property=')[1].split(' ')[0] if len(v.get('first_lines', [])) > 1 and 'sub-property=' in v['first_lines'][1] else 'exit %d' % v['exit'])) for c, v in det.items() if v['exit'] == 1)
    rows.append((m['id'], (m.get('summary') or '')[:230].replace('|', '/').replace('\n', ' '), (m.get('needs') or '')[:200].replace('|', '/').replace('\n', ' '),
                 'yes' if m['confirmation'].get('confirmed') else 'no', ('outside the statement (needs caller-side mutation of a returned container); not counted' if m.get('classification') == 'outside-statement' else caught or ('—' if not m['confirmation'].get('confirmed') else 'MISSED')), m.get('confirmed_against_repo_commit', '')))
out = ["# Seeded changes (written by independent sub-agents from the property text alone)\n",
       "Each directory holds `patch.diff` (never committed to /repo), the agent's demonstration `demo_test.go` and `meta.json` "
       "(what was run to confirm it: demo passes on the clean tree, patch applies/builds, existing suite passes with it, demo fails with it; "
       "then which quick checks report a VIOLATION with the patch applied).\n",
       "| id | change | needs | confirmed | caught by (quick tier: check (sub-property)) | repo commit |", "|---|---|---|---|---|---|"]
for r in rows:
    out.append("| %s | %s | %s | %s | %s | %s |" % r)
open('/verif/seeded/README.md', 'w').write("\n".join(out) + "\n")
print(len(rows), "rows;", sum(1 for r in rows if r[4] == 'MISSED'), "missed")
