#!/usr/bin/env python3
"""tools/silence.py <tier> <seed> [<seed> ...] — runs every claimed check at the given seeds on the unchanged tree and
reports exit codes, wall time and KNOWN-FINDING / VIOLATION / INFRA lines (a check must stay silent: exit 0)."""
import json, os, subprocess, sys, time
# the checks run in a private copy of /verif (against /repo itself), so that /verif can be edited meanwhile
import shutil
COPY = "/tmp/vs%s/verif" % os.environ.get('SILENCE_TAG', '')
shutil.rmtree(COPY, ignore_errors=True)
os.makedirs(os.path.dirname(COPY), exist_ok=True)
subprocess.run(["rsync", "-a", "--exclude", ".git", "--exclude", ".build", "--exclude", "replays", "/verif/", COPY + "/"], check=True)
tier = sys.argv[1]
seeds = sys.argv[2:]
man = json.load(open('/verif/MANIFEST.json'))
bad = 0
rows = []
for seed in seeds:
    for c in man['checks']:
        pid = c['property_id']
        if os.environ.get('SILENCE_ONLY') and pid not in os.environ['SILENCE_ONLY'].split(','):
            continue
        t0 = time.time()
        e = dict(os.environ, VERIF_SEED=seed)
        r = subprocess.run(['./run.sh', pid, tier], cwd=COPY, env=e, stdout=subprocess.PIPE, stderr=subprocess.STDOUT, text=True)
        dt = time.time() - t0
        flag = [l[:160] for l in r.stdout.splitlines() if l.startswith(('VIOLATION', 'INFRA'))]
        rows.append((seed, pid, r.returncode, round(dt, 1), flag))
        if r.returncode != 0:
            bad += 1
        print(seed, pid, r.returncode, round(dt, 1), flag, flush=True)
open('/verif/notes/silence_%s.md' % tier, 'a').write("\n".join("| %s | %s | %d | %.1f | %s |" % (s, p, rc, dt, "; ".join(f)) for s, p, rc, dt, f in rows) + "\n")
print("non-zero exits:", bad)
shutil.rmtree(COPY, ignore_errors=True)
