#!/usr/bin/env python3-vt
import json, jsonschema, glob, sys
ok = True
try:
    jsonschema.validate(json.load(open('/verif/MANIFEST.json')), json.load(open('/root/.vp/MANIFEST.schema.json')))
except Exception as e:
    print("MANIFEST invalid:", e); ok = False
sch = json.load(open('/root/.vp/EVIDENCE.schema.json'))
for f in sorted(glob.glob('/verif/evidence/*.json')):
    try:
        jsonschema.validate(json.load(open(f)), sch)
    except Exception as e:
        print(f, "invalid:", str(e)[:300]); ok = False
print("valid" if ok else "INVALID")
sys.exit(0 if ok else 1)
